//! aisobs - a dumb recorder for the `ais` crate.
//!
//! Reads a scenario (one operation per line, see `run_op`) and writes one
//! ndjson observation per operation.  It judges nothing: every observation
//! echoes its input, and the TLA+ trace specifications recompute from the
//! input bytes alone what the specification allows.
//!
//! Built three times (features std / alloc / none) from /repo's working tree
//! with overflow checks and debug assertions on, so arithmetic overflow,
//! `debug_assert!`, `unreachable!`, `expect` and slice indexing all surface as
//! panics, which are caught and recorded as data (`"r":"panic"`).

mod project;
mod sweep;

use ais::messages::AisMessage;
use ais::sentence::{AisFragments, AisParser, AisSentence};
use std::cell::RefCell;
use std::collections::HashMap;
use std::fmt::Write as FmtWrite;
use std::io::{BufRead, BufWriter, Write};
use std::panic::{catch_unwind, AssertUnwindSafe};

thread_local! {
    static LAST_PANIC: RefCell<String> = RefCell::new(String::new());
}

pub fn build_name() -> &'static str {
    if cfg!(feature = "std") {
        "std"
    } else if cfg!(feature = "alloc") {
        "alloc"
    } else {
        "none"
    }
}

fn unhex(s: &str) -> Vec<u8> {
    if s == "-" {
        return Vec::new();
    }
    let b = s.as_bytes();
    let mut out = Vec::with_capacity(b.len() / 2);
    let mut i = 0;
    while i + 1 < b.len() {
        let h = (b[i] as char).to_digit(16).unwrap_or(0);
        let l = (b[i + 1] as char).to_digit(16).unwrap_or(0);
        out.push((h * 16 + l) as u8);
        i += 2;
    }
    out
}

pub fn json_bytes(out: &mut String, b: &[u8]) {
    out.push('[');
    for (i, x) in b.iter().enumerate() {
        if i > 0 {
            out.push(',');
        }
        let _ = write!(out, "{}", x);
    }
    out.push(']');
}

pub fn json_str(out: &mut String, s: &str) {
    out.push('"');
    for c in s.chars() {
        match c {
            '"' => out.push_str("\\\""),
            '\\' => out.push_str("\\\\"),
            '\n' => out.push_str("\\n"),
            '\r' => out.push_str("\\r"),
            '\t' => out.push_str("\\t"),
            c if (c as u32) < 0x20 || (c as u32) > 0x7e => {
                let _ = write!(out, "\\u{:04x}", (c as u32) & 0xffff);
            }
            c => out.push(c),
        }
    }
    out.push('"');
}

fn project_sentence(out: &mut String, s: &AisSentence) {
    out.push_str("{\"talker\":");
    json_str(out, &format!("{:?}", s.talker_id));
    out.push_str(",\"report\":");
    json_str(out, &format!("{:?}", s.report_type));
    let _ = write!(out, ",\"n\":{},\"k\":{}", s.num_fragments, s.fragment_number);
    match s.message_id {
        Some(id) => {
            let _ = write!(out, ",\"id\":[{}]", id);
        }
        None => out.push_str(",\"id\":[]"),
    }
    match s.channel {
        Some(c) => {
            let _ = write!(out, ",\"chan\":[{}]", c as u32);
        }
        None => out.push_str(",\"chan\":[]"),
    }
    out.push_str(",\"data\":");
    json_bytes(out, &s.data[..]);
    let _ = write!(
        out,
        ",\"fill\":{},\"mtype\":{},\"more\":{},\"frag\":{}",
        s.fill_bit_count,
        s.message_type,
        s.has_more() as u8,
        s.is_fragment() as u8
    );
    out.push_str(",\"msg\":");
    match &s.message {
        Some(m) => {
            out.push('[');
            project::project_message(out, m);
            out.push(']');
        }
        None => out.push_str("[]"),
    }
    out.push('}');
}

fn err_json(out: &mut String, e: &ais::errors::Error) {
    match e {
        ais::errors::Error::Nmea { .. } => out.push_str("\"r\":\"err_nmea\""),
        ais::errors::Error::Checksum { expected, found } => {
            let _ = write!(
                out,
                "\"r\":\"err_checksum\",\"ck\":[{},{}]",
                expected, found
            );
        }
    }
}

struct Recorder {
    parsers: HashMap<u32, [AisParser; 3]>,
    with_dbg: bool,
    linebuf: Vec<u8>,
}

impl Recorder {
    fn op_line(&mut self, out: &mut String, p: u32, dec: bool, b: &[u8]) {
        let with_dbg = self.with_dbg;
        // every line is presented in the same read buffer, as a caller looping over an input would do
        let lb = &mut self.linebuf;
        lb.clear();
        lb.extend_from_slice(b);
        let b: &[u8] = &lb[..];
        let ps = self
            .parsers
            .entry(p)
            .or_insert_with(|| [AisParser::new(), AisParser::new(), AisParser::new()]);
        let _ = write!(
            out,
            "{{\"op\":\"line\",\"p\":{},\"dec\":{},\"b\":",
            p, dec as u8
        );
        json_bytes(out, b);
        out.push(',');
        let (p0, rest) = ps.split_at_mut(1);
        let (p1, p2) = rest.split_at_mut(1);
        let r0 = catch_unwind(AssertUnwindSafe(|| p0[0].parse(b, dec)));
        let r1 = catch_unwind(AssertUnwindSafe(|| p1[0].parse(b, dec)));
        let r2 = catch_unwind(AssertUnwindSafe(|| p2[0].parse(b, dec)));
        // Lock-step instances must agree (Debug rendering of the whole result).
        let d0 = format!("{:?}", r0.as_ref().map_err(|_| "panic"));
        let d1 = format!("{:?}", r1.as_ref().map_err(|_| "panic"));
        let d2 = format!("{:?}", r2.as_ref().map_err(|_| "panic"));
        let agree = (d0 == d1 && d1 == d2) as u8;
        match &r0 {
            Err(_) => {
                out.push_str("\"r\":\"panic\",\"pmsg\":");
                let m = LAST_PANIC.with(|m| m.borrow().clone());
                json_str(out, &m);
            }
            Ok(Err(e)) => err_json(out, e),
            Ok(Ok(fr)) => {
                let (kind, s) = match fr {
                    AisFragments::Complete(s) => ("complete", s),
                    AisFragments::Incomplete(s) => ("incomplete", s),
                };
                let _ = write!(out, "\"r\":\"{}\",\"s\":", kind);
                project_sentence(out, s);
            }
        }
        // conversions
        if let (Ok(Ok(fr0)), Ok(Ok(fr1)), Ok(Ok(fr2))) = (&r0, r1, r2) {
            let s0 = match fr0 {
                AisFragments::Complete(s) => s,
                AisFragments::Incomplete(s) => s,
            };
            let ds = format!("{:?}", s0);
            let o: Option<AisSentence> = fr1.into();
            let r: ais::errors::Result<AisSentence> = fr2.into();
            let (ov, osame) = match &o {
                Some(s) => (1, (format!("{:?}", s) == ds) as u8),
                None => (0, 1),
            };
            let (rv, rsame) = match &r {
                Ok(s) => (1, (format!("{:?}", s) == ds) as u8),
                Err(ais::errors::Error::Nmea { .. }) => (0, 1),
                Err(_) => (0, 0),
            };
            let _ = write!(
                out,
                ",\"opt\":{},\"res\":{},\"convsame\":{}",
                ov,
                rv,
                osame & rsame
            );
        }
        let _ = write!(out, ",\"agree\":{}", agree);
        if with_dbg {
            let mut d = format!("{:?}", ps[0]);
            if d.len() > 400 {
                d.truncate(400);
            }
            out.push_str(",\"dbg\":");
            json_str(out, &d);
        }
        out.push('}');
    }

    fn op_unarmor(&mut self, out: &mut String, fill: usize, b: &[u8]) {
        let _ = write!(out, "{{\"op\":\"unarmor\",\"fill\":{},\"b\":", fill);
        json_bytes(out, b);
        let r = catch_unwind(AssertUnwindSafe(|| ais::messages::unarmor(b, fill)));
        match r {
            Err(_) => {
                out.push_str(",\"r\":\"panic\",\"pmsg\":");
                let m = LAST_PANIC.with(|m| m.borrow().clone());
                json_str(out, &m);
            }
            Ok(Err(e)) => {
                out.push(',');
                err_json(out, &e);
            }
            Ok(Ok(v)) => {
                out.push_str(",\"r\":\"ok\",\"out\":");
                json_bytes(out, &v[..]);
            }
        }
        out.push('}');
    }

    fn op_decode(&mut self, out: &mut String, b: &[u8]) {
        out.push_str("{\"op\":\"decode\",\"b\":");
        json_bytes(out, b);
        let r = catch_unwind(AssertUnwindSafe(|| ais::messages::parse(b)));
        match r {
            Err(_) => {
                out.push_str(",\"r\":\"panic\",\"pmsg\":");
                let m = LAST_PANIC.with(|m| m.borrow().clone());
                json_str(out, &m);
            }
            Ok(Err(e)) => {
                out.push(',');
                err_json(out, &e);
            }
            Ok(Ok(m)) => {
                out.push_str(",\"r\":\"ok\",\"msg\":[");
                project::project_message(out, &m);
                out.push_str("],\"name\":");
                json_str(out, project::message_name(&m));
            }
        }
        out.push('}');
    }

    fn op_ship(&mut self, out: &mut String, code: u8) {
        use ais::messages::types::ShipType;
        let _ = write!(out, "{{\"op\":\"ship\",\"code\":{}", code);
        let r = catch_unwind(AssertUnwindSafe(|| ShipType::parse(code)));
        match r {
            Err(_) => out.push_str(",\"r\":\"panic\""),
            Ok(None) => out.push_str(",\"r\":\"ok\",\"parse\":[]"),
            Ok(Some(st)) => {
                out.push_str(",\"r\":\"ok\",\"parse\":[");
                project::enum_json(out, &format!("{:?}", st));
                out.push(']');
                let back = catch_unwind(AssertUnwindSafe(|| u8::from(st)));
                match back {
                    Ok(v) => {
                        let _ = write!(out, ",\"back\":[{}]", v);
                    }
                    Err(_) => out.push_str(",\"back\":\"panic\""),
                }
            }
        }
        // ShipType::from(code) is documented nowhere; recorded for information
        let f = catch_unwind(AssertUnwindSafe(|| ShipType::from(code)));
        match f {
            Ok(st) => {
                out.push_str(",\"from\":[");
                project::enum_json(out, &format!("{:?}", st));
                out.push(']');
            }
            Err(_) => out.push_str(",\"from\":[]"),
        }
        out.push('}');
    }

    fn op_rot(&mut self, out: &mut String, raw: u8) {
        use ais::messages::navigation::RateOfTurn;
        let _ = write!(out, "{{\"op\":\"rot\",\"raw\":{}", raw);
        let r = catch_unwind(AssertUnwindSafe(|| {
            RateOfTurn::parse(raw).map(|r| (format!("{:?}", r), r.rate(), r.direction()))
        }));
        match r {
            Err(_) => out.push_str(",\"r\":\"panic\""),
            Ok(None) => out.push_str(",\"r\":\"ok\",\"v\":[]"),
            Ok(Some((d, rate, dir))) => {
                let _ = write!(
                    out,
                    ",\"r\":\"ok\",\"v\":[{}]",
                    project::rot_raw_from_debug(&d)
                );
                match rate {
                    Some(x) => {
                        let _ = write!(out, ",\"rate\":[{}]", project::micro(x));
                    }
                    None => out.push_str(",\"rate\":[]"),
                }
                match dir {
                    Some(x) => {
                        out.push_str(",\"dir\":[");
                        json_str(out, &format!("{:?}", x));
                        out.push(']');
                    }
                    None => out.push_str(",\"dir\":[]"),
                }
            }
        }
        out.push('}');
    }
}

/// appends ,"tag":"..." to an event object (the tag is an opaque generator label)
fn add_tag(out: &mut String, tag: &str) {
    if out.ends_with('}') {
        out.pop();
        out.push_str(",\"tag\":");
        json_str(out, tag);
        out.push('}');
    }
}

fn main() {
    let args: Vec<String> = std::env::args().collect();
    std::panic::set_hook(Box::new(|info| {
        let s = format!("{}", info);
        LAST_PANIC.with(|m| *m.borrow_mut() = s);
    }));
    if args.len() >= 2 && args[1] == "sweep" {
        std::process::exit(sweep::main(&args[2..]));
    }
    if args.len() >= 2 && args[1] == "build" {
        println!("{}", build_name());
        return;
    }
    let input: Box<dyn BufRead> = if args.len() >= 2 && args[1] != "-" {
        Box::new(std::io::BufReader::new(
            std::fs::File::open(&args[1]).expect("open scenario"),
        ))
    } else {
        Box::new(std::io::BufReader::new(std::io::stdin()))
    };
    let output: Box<dyn Write> = if args.len() >= 3 && args[2] != "-" {
        Box::new(std::fs::File::create(&args[2]).expect("create trace"))
    } else {
        Box::new(std::io::stdout())
    };
    let flush_each = std::env::var("AISOBS_FLUSH").map(|v| v == "1").unwrap_or(false);
    let mut w = BufWriter::with_capacity(1 << 16, output);
    let mut rec = Recorder {
        parsers: HashMap::new(),
        with_dbg: std::env::var("AISOBS_DBG").map(|v| v == "1").unwrap_or(false),
        linebuf: Vec::with_capacity(1 << 17),
    };
    let mut out = String::with_capacity(4096);
    for line in input.lines() {
        let line = match line {
            Ok(l) => l,
            Err(_) => break,
        };
        let mut it = line.splitn(2, ' ');
        let op = it.next().unwrap_or("");
        let rest = it.next().unwrap_or("");
        out.clear();
        match op {
            "N" => {
                let p: u32 = rest.trim().parse().unwrap_or(0);
                rec.parsers.insert(
                    p,
                    [AisParser::new(), AisParser::new(), AisParser::new()],
                );
                let _ = write!(out, "{{\"op\":\"new\",\"p\":{}}}", p);
            }
            "L" => {
                let f: Vec<&str> = rest.split(' ').collect();
                if f.len() < 3 {
                    continue;
                }
                let p: u32 = f[0].parse().unwrap_or(0);
                let dec = f[1] == "1";
                let b = unhex(f[2]);
                rec.op_line(&mut out, p, dec, &b);
                if f.len() > 3 {
                    add_tag(&mut out, f[3]);
                }
            }
            "U" => {
                let f: Vec<&str> = rest.split(' ').collect();
                if f.len() < 2 {
                    continue;
                }
                let fill: usize = f[0].parse().unwrap_or(0);
                let b = unhex(f[1]);
                rec.op_unarmor(&mut out, fill, &b);
                if f.len() > 2 {
                    add_tag(&mut out, f[2]);
                }
            }
            "D" => {
                let f: Vec<&str> = rest.trim().split(' ').collect();
                let b = unhex(f[0]);
                rec.op_decode(&mut out, &b);
                if f.len() > 1 {
                    add_tag(&mut out, f[1]);
                }
            }
            "S" => {
                let c: u8 = rest.trim().parse().unwrap_or(0);
                rec.op_ship(&mut out, c);
            }
            "R" => {
                let c: u8 = rest.trim().parse().unwrap_or(0);
                rec.op_rot(&mut out, c);
            }
            "M" => {
                out.push_str(rest);
            }
            _ => continue,
        }
        out.push('\n');
        if w.write_all(out.as_bytes()).is_err() {
            break;
        }
        if flush_each {
            let _ = w.flush();
        }
    }
    let _ = w.flush();
}

#[allow(dead_code)]
fn _unused(_: &AisMessage) {}
