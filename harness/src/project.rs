//! Projection: implementation value -> abstract (JSON) value.
//!
//! Knows nothing about layouts, scales or sentinels.  Integers as is, bool as
//! 0/1, Option<T> as [] / [T], enums as {"n": <variant name>, "c": <carried
//! code or -1>} taken from their Debug rendering, strings as byte arrays,
//! f32 as round(x * 10^6) ("micro-units").

use crate::{json_bytes, json_str};
use ais::messages::radio_status::{RadioStatus, SubMessage};
use ais::messages::AisMessage;
use ais::messages::AisMessageType;
use std::fmt::Debug;
use std::fmt::Write;

pub fn micro(x: f32) -> String {
    if x.is_nan() {
        return "\"nan\"".to_string();
    }
    if x.is_infinite() {
        return "\"inf\"".to_string();
    }
    let v = (x as f64 * 1e6).round();
    if v.abs() > 2.0e9 {
        return "\"big\"".to_string();
    }
    format!("{}", v as i64)
}

/// "Unknown(5)" -> {"n":"Unknown","c":5};  "Moored" -> {"n":"Moored","c":-1}
pub fn enum_json(out: &mut String, dbg: &str) {
    let (name, code) = match dbg.find('(') {
        Some(i) => {
            let inner = dbg[i + 1..].trim_end_matches(')');
            (&dbg[..i], inner.parse::<i64>().unwrap_or(-2))
        }
        None => (dbg, -1),
    };
    out.push_str("{\"n\":");
    json_str(out, name);
    let _ = write!(out, ",\"c\":{}}}", code);
}

pub fn rot_raw_from_debug(d: &str) -> i64 {
    // "RateOfTurn { raw: -5 }"
    let digits: String = d
        .chars()
        .filter(|c| c.is_ascii_digit() || *c == '-')
        .collect();
    digits.parse::<i64>().unwrap_or(-999)
}

struct Obj<'a> {
    out: &'a mut String,
    first: bool,
}

impl<'a> Obj<'a> {
    fn new(out: &'a mut String) -> Self {
        out.push('{');
        Obj { out, first: true }
    }
    fn key(&mut self, k: &str) {
        if !self.first {
            self.out.push(',');
        }
        self.first = false;
        self.out.push('"');
        self.out.push_str(k);
        self.out.push_str("\":");
    }
    fn int<T: Into<i64>>(&mut self, k: &str, v: T) {
        self.key(k);
        let _ = write!(self.out, "{}", v.into());
    }
    fn boolean(&mut self, k: &str, v: bool) {
        self.key(k);
        self.out.push(if v { '1' } else { '0' });
    }
    fn opt_int<T: Into<i64>>(&mut self, k: &str, v: Option<T>) {
        self.key(k);
        match v {
            Some(x) => {
                let _ = write!(self.out, "[{}]", x.into());
            }
            None => self.out.push_str("[]"),
        }
    }
    fn float(&mut self, k: &str, v: f32) {
        self.key(k);
        self.out.push_str(&micro(v));
    }
    fn opt_float(&mut self, k: &str, v: Option<f32>) {
        self.key(k);
        match v {
            Some(x) => {
                self.out.push('[');
                self.out.push_str(&micro(x));
                self.out.push(']');
            }
            None => self.out.push_str("[]"),
        }
    }
    fn en<T: Debug>(&mut self, k: &str, v: &T) {
        self.key(k);
        enum_json(self.out, &format!("{:?}", v));
    }
    fn opt_en<T: Debug>(&mut self, k: &str, v: &Option<T>) {
        self.key(k);
        match v {
            Some(x) => {
                self.out.push('[');
                enum_json(self.out, &format!("{:?}", x));
                self.out.push(']');
            }
            None => self.out.push_str("[]"),
        }
    }
    fn text(&mut self, k: &str, v: &str) {
        self.key(k);
        json_bytes(self.out, v.as_bytes());
    }
    fn bytes(&mut self, k: &str, v: &[u8]) {
        self.key(k);
        json_bytes(self.out, v);
    }
    fn string(&mut self, k: &str, v: &str) {
        self.key(k);
        json_str(self.out, v);
    }
    fn radio(&mut self, k: &str, v: &RadioStatus) {
        self.key(k);
        match v {
            RadioStatus::Sotdma(m) => {
                self.out.push_str("{\"k\":\"Sotdma\",\"sync\":");
                enum_json(self.out, &format!("{:?}", m.sync_state));
                let _ = write!(self.out, ",\"to\":{},\"sub\":", m.slot_timeout);
                let (n, a, b): (&str, i64, i64) = match &m.sub_message {
                    SubMessage::SlotOffset(x) => ("SlotOffset", *x as i64, -1),
                    SubMessage::UtcHourAndMinute(h, mi) => {
                        ("UtcHourAndMinute", *h as i64, *mi as i64)
                    }
                    SubMessage::SlotNumber(x) => ("SlotNumber", *x as i64, -1),
                    SubMessage::ReceivedStations(x) => ("ReceivedStations", *x as i64, -1),
                };
                let _ = write!(self.out, "{{\"k\":\"{}\",\"a\":{},\"b\":{}}}}}", n, a, b);
            }
            RadioStatus::Itdma(m) => {
                self.out.push_str("{\"k\":\"Itdma\",\"sync\":");
                enum_json(self.out, &format!("{:?}", m.sync_state));
                let _ = write!(
                    self.out,
                    ",\"inc\":{},\"slots\":{},\"keep\":{}}}",
                    m.slot_increment, m.num_slots, m.keep as u8
                );
            }
        }
    }
    fn end(self) {
        self.out.push('}');
    }
}

pub fn message_name(m: &AisMessage) -> &'static str {
    match m {
        AisMessage::PositionReport(x) => x.name(),
        AisMessage::BaseStationReport(x) => x.name(),
        AisMessage::BinaryBroadcastMessage(x) => x.name(),
        AisMessage::Interrogation(x) => x.name(),
        AisMessage::StaticAndVoyageRelatedData(x) => x.name(),
        AisMessage::DgnssBroadcastBinaryMessage(x) => x.name(),
        AisMessage::StandardClassBPositionReport(x) => x.name(),
        AisMessage::ExtendedClassBPositionReport(x) => x.name(),
        AisMessage::DataLinkManagementMessage(x) => x.name(),
        AisMessage::AidToNavigationReport(x) => x.name(),
        AisMessage::StaticDataReport(x) => x.name(),
        AisMessage::UtcDateResponse(x) => x.name(),
        AisMessage::StandardAircraftPositionReport(x) => x.name(),
        AisMessage::AssignmentModeCommand(x) => x.name(),
        AisMessage::BinaryAcknowledgeMessage(x) => x.name(),
        AisMessage::UtcDateInquiry(x) => x.name(),
        AisMessage::AddressedSafetyRelatedMessage(x) => x.name(),
        AisMessage::SafetyRelatedBroadcastMessage(x) => x.name(),
        AisMessage::SafetyRelatedAcknowledgment(x) => x.name(),
        AisMessage::LongRangeAisBroadcastMessage(x) => x.name(),
        AisMessage::BinaryAddressedMessage(x) => x.name(),
    }
}

pub fn project_message(out: &mut String, m: &AisMessage) {
    // variant name from Debug: text before the first '('
    let dbg = format!("{:?}", m);
    let vname = dbg.split('(').next().unwrap_or("?").to_string();
    out.push_str("{\"v\":");
    json_str(out, &vname);
    out.push_str(",\"f\":");
    project_fields(out, m);
    out.push('}');
}

fn project_fields(out: &mut String, m: &AisMessage) {
    match m {
        AisMessage::PositionReport(x) => {
            let mut o = Obj::new(out);
            o.int("message_type", x.message_type);
            o.int("repeat_indicator", x.repeat_indicator);
            o.int("mmsi", x.mmsi);
            o.opt_en("navigation_status", &x.navigation_status);
            o.opt_int(
                "rate_of_turn",
                x.rate_of_turn
                    .map(|r| rot_raw_from_debug(&format!("{:?}", r))),
            );
            o.opt_float("speed_over_ground", x.speed_over_ground);
            o.en("position_accuracy", &x.position_accuracy);
            o.opt_float("longitude", x.longitude);
            o.opt_float("latitude", x.latitude);
            o.opt_float("course_over_ground", x.course_over_ground);
            o.opt_int("true_heading", x.true_heading);
            o.int("timestamp", x.timestamp);
            o.opt_en("maneuver_indicator", &x.maneuver_indicator);
            o.boolean("raim", x.raim);
            o.radio("radio_status", &x.radio_status);
            o.end();
        }
        AisMessage::BaseStationReport(x) => {
            let mut o = Obj::new(out);
            o.int("message_type", x.message_type);
            o.int("repeat_indicator", x.repeat_indicator);
            o.int("mmsi", x.mmsi);
            o.opt_int("year", x.year);
            o.opt_int("month", x.month);
            o.opt_int("day", x.day);
            o.int("hour", x.hour);
            o.opt_int("minute", x.minute);
            o.opt_int("second", x.second);
            o.en("fix_quality", &x.fix_quality);
            o.opt_float("longitude", x.longitude);
            o.opt_float("latitude", x.latitude);
            o.opt_en("epfd_type", &x.epfd_type);
            o.boolean("raim", x.raim);
            o.radio("radio_status", &x.radio_status);
            o.end();
        }
        AisMessage::UtcDateResponse(x) => {
            let mut o = Obj::new(out);
            o.int("message_type", x.message_type);
            o.int("repeat_indicator", x.repeat_indicator);
            o.int("mmsi", x.mmsi);
            o.opt_int("year", x.year);
            o.opt_int("month", x.month);
            o.opt_int("day", x.day);
            o.int("hour", x.hour);
            o.opt_int("minute", x.minute);
            o.opt_int("second", x.second);
            o.en("fix_quality", &x.fix_quality);
            o.opt_float("longitude", x.longitude);
            o.opt_float("latitude", x.latitude);
            o.opt_en("epfd_type", &x.epfd_type);
            o.boolean("raim", x.raim);
            o.radio("radio_status", &x.radio_status);
            o.end();
        }
        AisMessage::StaticAndVoyageRelatedData(x) => {
            let mut o = Obj::new(out);
            o.int("message_type", x.message_type);
            o.int("repeat_indicator", x.repeat_indicator);
            o.int("mmsi", x.mmsi);
            o.int("ais_version", x.ais_version);
            o.int("imo_number", x.imo_number);
            o.text("callsign", &x.callsign);
            o.text("vessel_name", &x.vessel_name);
            o.opt_en("ship_type", &x.ship_type);
            o.int("dimension_to_bow", x.dimension_to_bow);
            o.int("dimension_to_stern", x.dimension_to_stern);
            o.int("dimension_to_port", x.dimension_to_port);
            o.int("dimension_to_starboard", x.dimension_to_starboard);
            o.opt_en("epfd_type", &x.epfd_type);
            o.opt_int("eta_month_utc", x.eta_month_utc);
            o.opt_int("eta_day_utc", x.eta_day_utc);
            o.int("eta_hour_utc", x.eta_hour_utc);
            o.opt_int("eta_minute_utc", x.eta_minute_utc);
            o.float("draught", x.draught);
            o.text("destination", &x.destination);
            o.en("dte", &x.dte);
            o.end();
        }
        AisMessage::BinaryAddressedMessage(x) => {
            let mut o = Obj::new(out);
            o.int("message_type", x.message_type);
            o.int("repeat_indicator", x.repeat_indicator);
            o.int("mmsi", x.mmsi);
            o.int("seqno", x.seqno);
            o.int("dest_mmsi", x.dest_mmsi);
            o.boolean("retransmit", x.retransmit);
            o.int("dac", x.dac);
            o.int("fid", x.fid);
            o.bytes("data", &x.data[..]);
            o.end();
        }
        AisMessage::BinaryAcknowledgeMessage(x) => {
            let mut o = Obj::new(out);
            o.int("message_type", x.message_type);
            o.int("repeat_indicator", x.repeat_indicator);
            o.int("mmsi", x.mmsi);
            o.key("acks");
            o.out.push('[');
            for (i, a) in x.acks.iter().enumerate() {
                if i > 0 {
                    o.out.push(',');
                }
                let _ = write!(o.out, "{{\"mmsi\":{},\"seq_num\":{}}}", a.mmsi, a.seq_num);
            }
            o.out.push(']');
            o.end();
        }
        AisMessage::SafetyRelatedAcknowledgment(x) => {
            let mut o = Obj::new(out);
            o.int("message_type", x.message_type);
            o.int("repeat_indicator", x.repeat_indicator);
            o.int("mmsi", x.mmsi);
            o.key("acks");
            o.out.push('[');
            for (i, a) in x.acks.iter().enumerate() {
                if i > 0 {
                    o.out.push(',');
                }
                let _ = write!(o.out, "{{\"mmsi\":{},\"seq_num\":{}}}", a.mmsi, a.seq_num);
            }
            o.out.push(']');
            o.end();
        }
        AisMessage::BinaryBroadcastMessage(x) => {
            let mut o = Obj::new(out);
            o.int("message_type", x.message_type);
            o.int("repeat_indicator", x.repeat_indicator);
            o.int("mmsi", x.mmsi);
            o.int("dac", x.dac);
            o.int("fid", x.fid);
            o.bytes("data", &x.data[..]);
            o.end();
        }
        AisMessage::StandardAircraftPositionReport(x) => {
            let mut o = Obj::new(out);
            o.int("message_type", x.message_type);
            o.int("repeat_indicator", x.repeat_indicator);
            o.int("mmsi", x.mmsi);
            o.opt_int("altitude", x.altitude);
            o.opt_float("speed_over_ground", x.speed_over_ground);
            o.en("position_accuracy", &x.position_accuracy);
            o.opt_float("longitude", x.longitude);
            o.opt_float("latitude", x.latitude);
            o.opt_float("course_over_ground", x.course_over_ground);
            o.int("timestamp", x.timestamp);
            o.en("dte", &x.dte);
            o.en("assigned_mode", &x.assigned_mode);
            o.boolean("raim", x.raim);
            o.radio("radio_status", &x.radio_status);
            o.end();
        }
        AisMessage::UtcDateInquiry(x) => {
            let mut o = Obj::new(out);
            o.int("message_type", x.message_type);
            o.int("repeat_indicator", x.repeat_indicator);
            o.int("mmsi", x.mmsi);
            o.int("dest_mmsi", x.dest_mmsi);
            o.end();
        }
        AisMessage::AddressedSafetyRelatedMessage(x) => {
            let mut o = Obj::new(out);
            o.int("message_type", x.message_type);
            o.int("repeat_indicator", x.repeat_indicator);
            o.int("mmsi", x.mmsi);
            o.int("seqno", x.seqno);
            o.int("dest_mmsi", x.dest_mmsi);
            o.boolean("retransmit", x.retransmit);
            o.text("text", &x.text);
            o.end();
        }
        AisMessage::SafetyRelatedBroadcastMessage(x) => {
            let mut o = Obj::new(out);
            o.int("message_type", x.message_type);
            o.int("repeat_indicator", x.repeat_indicator);
            o.int("mmsi", x.mmsi);
            o.text("text", &x.text);
            o.end();
        }
        AisMessage::Interrogation(x) => {
            let mut o = Obj::new(out);
            o.int("message_type", x.message_type);
            o.int("repeat_indicator", x.repeat_indicator);
            o.int("mmsi", x.mmsi);
            o.key("stations");
            o.out.push('[');
            for (i, s) in x.stations.iter().enumerate() {
                if i > 0 {
                    o.out.push(',');
                }
                let _ = write!(o.out, "{{\"mmsi\":{},\"messages\":[", s.mmsi);
                for (j, mm) in s.messages.iter().enumerate() {
                    if j > 0 {
                        o.out.push(',');
                    }
                    let _ = write!(o.out, "{{\"message_type\":{},\"slot_offset\":", mm.message_type);
                    match mm.slot_offset {
                        Some(v) => {
                            let _ = write!(o.out, "[{}]", v);
                        }
                        None => o.out.push_str("[]"),
                    }
                    o.out.push('}');
                }
                o.out.push_str("]}");
            }
            o.out.push(']');
            o.end();
        }
        AisMessage::AssignmentModeCommand(x) => {
            let mut o = Obj::new(out);
            o.int("message_type", x.message_type);
            o.int("repeat_indicator", x.repeat_indicator);
            o.int("mmsi", x.mmsi);
            o.int("mmsi1", x.mmsi1);
            o.int("offset1", x.offset1);
            o.int("increment1", x.increment1);
            o.opt_int("mmsi2", x.mmsi2);
            o.opt_int("offset2", x.offset2);
            o.opt_int("increment2", x.increment2);
            o.end();
        }
        AisMessage::DgnssBroadcastBinaryMessage(x) => {
            let mut o = Obj::new(out);
            o.int("message_type", x.message_type);
            o.int("repeat_indicator", x.repeat_indicator);
            o.int("mmsi", x.mmsi);
            o.opt_float("longitude", x.longitude);
            o.opt_float("latitude", x.latitude);
            o.int("p_message_type", x.payload.message_type);
            o.int("p_station_id", x.payload.station_id);
            o.int("p_z_count", x.payload.z_count);
            o.int("p_sequence_number", x.payload.sequence_number);
            o.int("p_n", x.payload.n);
            o.int("p_health", x.payload.health);
            o.bytes("p_data", &x.payload.data[..]);
            o.end();
        }
        AisMessage::StandardClassBPositionReport(x) => {
            let mut o = Obj::new(out);
            o.int("message_type", x.message_type);
            o.int("repeat_indicator", x.repeat_indicator);
            o.int("mmsi", x.mmsi);
            o.opt_float("speed_over_ground", x.speed_over_ground);
            o.en("position_accuracy", &x.position_accuracy);
            o.opt_float("longitude", x.longitude);
            o.opt_float("latitude", x.latitude);
            o.opt_float("course_over_ground", x.course_over_ground);
            o.opt_int("true_heading", x.true_heading);
            o.int("timestamp", x.timestamp);
            o.en("cs_unit", &x.cs_unit);
            o.boolean("has_display", x.has_display);
            o.boolean("has_dsc", x.has_dsc);
            o.boolean("whole_band", x.whole_band);
            o.boolean("accepts_message_22", x.accepts_message_22);
            o.en("assigned_mode", &x.assigned_mode);
            o.boolean("raim", x.raim);
            o.radio("radio_status", &x.radio_status);
            o.end();
        }
        AisMessage::ExtendedClassBPositionReport(x) => {
            let mut o = Obj::new(out);
            o.int("message_type", x.message_type);
            o.int("repeat_indicator", x.repeat_indicator);
            o.int("mmsi", x.mmsi);
            o.opt_float("speed_over_ground", x.speed_over_ground);
            o.en("position_accuracy", &x.position_accuracy);
            o.opt_float("longitude", x.longitude);
            o.opt_float("latitude", x.latitude);
            o.opt_float("course_over_ground", x.course_over_ground);
            o.opt_int("true_heading", x.true_heading);
            o.int("timestamp", x.timestamp);
            o.text("name", &x.name);
            o.opt_en("type_of_ship_and_cargo", &x.type_of_ship_and_cargo);
            o.int("dimension_to_bow", x.dimension_to_bow);
            o.int("dimension_to_stern", x.dimension_to_stern);
            o.int("dimension_to_port", x.dimension_to_port);
            o.int("dimension_to_starboard", x.dimension_to_starboard);
            o.opt_en("epfd_type", &x.epfd_type);
            o.boolean("raim", x.raim);
            o.en("dte", &x.dte);
            o.en("assigned_mode", &x.assigned_mode);
            o.end();
        }
        AisMessage::DataLinkManagementMessage(x) => {
            let mut o = Obj::new(out);
            o.int("message_type", x.message_type);
            o.int("repeat_indicator", x.repeat_indicator);
            o.int("mmsi", x.mmsi);
            o.key("reservations");
            o.out.push('[');
            for (i, r) in x.reservations.iter().enumerate() {
                if i > 0 {
                    o.out.push(',');
                }
                let _ = write!(
                    o.out,
                    "{{\"offset\":{},\"num_slots\":{},\"timeout\":{},\"increment\":{}}}",
                    r.offset, r.num_slots, r.timeout, r.increment
                );
            }
            o.out.push(']');
            o.end();
        }
        AisMessage::AidToNavigationReport(x) => {
            let mut o = Obj::new(out);
            o.int("message_type", x.message_type);
            o.int("repeat_indicator", x.repeat_indicator);
            o.int("mmsi", x.mmsi);
            o.opt_en("aid_type", &x.aid_type);
            o.text("name", &x.name);
            o.en("accuracy", &x.accuracy);
            o.opt_float("longitude", x.longitude);
            o.opt_float("latitude", x.latitude);
            o.int("dimension_to_bow", x.dimension_to_bow);
            o.int("dimension_to_stern", x.dimension_to_stern);
            o.int("dimension_to_port", x.dimension_to_port);
            o.int("dimension_to_starboard", x.dimension_to_starboard);
            o.opt_en("epfd_type", &x.epfd_type);
            o.int("utc_second", x.utc_second);
            o.boolean("off_position", x.off_position);
            o.int("regional_reserved", x.regional_reserved);
            o.boolean("raim", x.raim);
            o.boolean("virtual_aid", x.virtual_aid);
            o.boolean("assigned_mode", x.assigned_mode);
            o.end();
        }
        AisMessage::StaticDataReport(x) => {
            use ais::messages::static_data_report::MessagePart;
            let mut o = Obj::new(out);
            o.int("message_type", x.message_type);
            o.int("repeat_indicator", x.repeat_indicator);
            o.int("mmsi", x.mmsi);
            match &x.message_part {
                MessagePart::PartA { vessel_name } => {
                    o.string("part", "A");
                    o.text("vessel_name", vessel_name);
                }
                MessagePart::PartB {
                    ship_type,
                    vendor_id,
                    model_serial,
                    unit_model_code,
                    serial_number,
                    callsign,
                    dimension_to_bow,
                    dimension_to_stern,
                    dimension_to_port,
                    dimension_to_starboard,
                } => {
                    o.string("part", "B");
                    o.opt_en("ship_type", ship_type);
                    o.text("vendor_id", vendor_id);
                    o.text("model_serial", model_serial);
                    o.int("unit_model_code", *unit_model_code);
                    o.int("serial_number", *serial_number);
                    o.text("callsign", callsign);
                    o.int("dimension_to_bow", *dimension_to_bow);
                    o.int("dimension_to_stern", *dimension_to_stern);
                    o.int("dimension_to_port", *dimension_to_port);
                    o.int("dimension_to_starboard", *dimension_to_starboard);
                }
                MessagePart::Unknown(p) => {
                    o.string("part", "Unknown");
                    o.int("part_number", *p);
                }
            }
            o.end();
        }
        AisMessage::LongRangeAisBroadcastMessage(x) => {
            let mut o = Obj::new(out);
            o.int("message_type", x.message_type);
            o.int("repeat_indicator", x.repeat_indicator);
            o.int("mmsi", x.mmsi);
            o.en("position_accuracy", &x.position_accuracy);
            o.boolean("raim", x.raim);
            o.opt_en("navigation_status", &x.navigation_status);
            o.opt_float("longitude", x.longitude);
            o.opt_float("latitude", x.latitude);
            o.opt_float("speed_over_ground", x.speed_over_ground);
            o.opt_float("course_over_ground", x.course_over_ground);
            o.boolean("gnss_position_status", x.gnss_position_status);
            o.end();
        }
    }
}
