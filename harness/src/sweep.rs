//! In-process exhaustive sweep of one coordinate field (C10 / C11, thorough tier).
//!
//! `aisobs sweep <type> <field> <off> <width> <P> <Q> <sentinel> <template-hex> <threads> [stride]`
//!
//! For every raw value of the `width`-bit field at bit offset `off` of the template message, decode the
//! message with `ais::messages::parse` and compare the reported longitude / latitude with the raw
//! value, using ONLY the constants given on the command line - which the orchestrator takes from the
//! tables the TLA+ specification exported in the same run (width, offset, scale P/Q in micro-degrees
//! per raw unit, sentinel).  The comparison is the same integer inequality as AisDecode!Close:
//!     |micro * Q - raw * P| <= Q * (1 + |micro| / 2^21)
//! and absent <=> raw = sentinel.  Output: one JSON line with counts and the first failures.

use ais::messages::AisMessage;
use std::sync::atomic::{AtomicU64, Ordering};
use std::sync::{Arc, Mutex};

fn put_bits(buf: &mut [u8], off: usize, w: usize, val: u64) {
    for i in 0..w {
        let bit = (val >> (w - 1 - i)) & 1;
        let p = off + i;
        let mask = 1u8 << (7 - (p % 8));
        if bit == 1 {
            buf[p / 8] |= mask;
        } else {
            buf[p / 8] &= !mask;
        }
    }
}

fn coord(m: &AisMessage, field: &str) -> Option<Option<f32>> {
    let (lon, lat) = match m {
        AisMessage::PositionReport(x) => (x.longitude, x.latitude),
        AisMessage::BaseStationReport(x) => (x.longitude, x.latitude),
        AisMessage::UtcDateResponse(x) => (x.longitude, x.latitude),
        AisMessage::StandardAircraftPositionReport(x) => (x.longitude, x.latitude),
        AisMessage::DgnssBroadcastBinaryMessage(x) => (x.longitude, x.latitude),
        AisMessage::StandardClassBPositionReport(x) => (x.longitude, x.latitude),
        AisMessage::ExtendedClassBPositionReport(x) => (x.longitude, x.latitude),
        AisMessage::AidToNavigationReport(x) => (x.longitude, x.latitude),
        AisMessage::LongRangeAisBroadcastMessage(x) => (x.longitude, x.latitude),
        _ => return None,
    };
    Some(if field == "longitude" { lon } else { lat })
}

fn unhex(s: &str) -> Vec<u8> {
    let b = s.as_bytes();
    let mut out = Vec::new();
    let mut i = 0;
    while i + 1 < b.len() {
        let h = (b[i] as char).to_digit(16).unwrap_or(0);
        let l = (b[i + 1] as char).to_digit(16).unwrap_or(0);
        out.push((h * 16 + l) as u8);
        i += 2;
    }
    out
}

pub fn main(args: &[String]) -> i32 {
    if args.len() < 9 {
        eprintln!("usage: sweep <type> <field> <off> <width> <P> <Q> <sentinel> <template-hex> <threads> [stride]");
        return 2;
    }
    let field = args[1].clone();
    let off: usize = args[2].parse().unwrap();
    let w: usize = args[3].parse().unwrap();
    let p: i64 = args[4].parse().unwrap();
    let q: i64 = args[5].parse().unwrap();
    let sentinel: i64 = args[6].parse().unwrap();
    let template = unhex(&args[7]);
    let threads: u64 = args[8].parse().unwrap();
    let stride: u64 = if args.len() > 9 { args[9].parse().unwrap() } else { 1 };
    let total: u64 = 1u64 << w;
    let checked = Arc::new(AtomicU64::new(0));
    let absent = Arc::new(AtomicU64::new(0));
    let bad = Arc::new(AtomicU64::new(0));
    let fails: Arc<Mutex<Vec<String>>> = Arc::new(Mutex::new(Vec::new()));
    let mut hs = Vec::new();
    for t in 0..threads {
        let (field, template) = (field.clone(), template.clone());
        let (checked, absent, bad, fails) = (checked.clone(), absent.clone(), bad.clone(), fails.clone());
        hs.push(std::thread::spawn(move || {
            let lo = total * t / threads;
            let hi = total * (t + 1) / threads;
            let mut buf = template.clone();
            let mut n = 0u64;
            let mut na = 0u64;
            let mut v = lo + ((stride - (lo % stride)) % stride);
            while v < hi {
                put_bits(&mut buf, off, w, v);
                let raw: i64 = if v >= (1u64 << (w - 1)) { v as i64 - (1i64 << w) } else { v as i64 };
                let r = std::panic::catch_unwind(|| ais::messages::parse(&buf));
                let verdict: Result<(), String> = match r {
                    Err(_) => Err("panic".to_string()),
                    Ok(Err(_)) => Err("error".to_string()),
                    Ok(Ok(m)) => match coord(&m, &field) {
                        None => Err("no coordinate in this variant".to_string()),
                        Some(None) => {
                            na += 1;
                            if raw == sentinel { Ok(()) } else { Err("absent".to_string()) }
                        }
                        Some(Some(x)) => {
                            if raw == sentinel {
                                Err(format!("sentinel reported as {}", x))
                            } else {
                                let micro = (x as f64 * 1e6).round() as i64;
                                let lhs = (micro * q - raw * p).abs();
                                let rhs = q * (1 + micro.abs() / 2097152);
                                if lhs <= rhs { Ok(()) } else { Err(format!("value {}", x)) }
                            }
                        }
                    },
                };
                if let Err(e) = verdict {
                    bad.fetch_add(1, Ordering::Relaxed);
                    let mut f = fails.lock().unwrap();
                    if f.len() < 5 {
                        f.push(format!("{{\"raw\":{},\"what\":\"{}\"}}", raw, e));
                    }
                }
                n += 1;
                v += stride;
            }
            checked.fetch_add(n, Ordering::Relaxed);
            absent.fetch_add(na, Ordering::Relaxed);
        }));
    }
    for h in hs {
        let _ = h.join();
    }
    let f = fails.lock().unwrap();
    println!(
        "{{\"checked\":{},\"absent\":{},\"bad\":{},\"fails\":[{}]}}",
        checked.load(Ordering::Relaxed),
        absent.load(Ordering::Relaxed),
        bad.load(Ordering::Relaxed),
        f.join(",")
    );
    0
}
