//! In-process exhaustive sweeps (filled in later).
pub fn main(_args: &[String]) -> i32 {
    eprintln!("sweep: not implemented");
    2
}
