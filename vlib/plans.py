"""Which model checks, scenario families and custom engines decide each property."""
from . import families as F
from . import engine as E
from . import walker as W

ALL3 = ("std", "alloc", "none")


def mc(module, cfg, **kw):
    return dict(module=module, cfg=cfg, **kw)


def fam(name, gen, **kw):
    return dict(name=name, gen=gen, **kw)


def walk_std(prop, tier):
    return W.walk(prop, tier, "std")


def walk_none(prop, tier):
    return W.walk(prop, tier, "none", depth=3)


def walk_alloc(prop, tier):
    return W.walk(prop, tier, "alloc", depth=3)


def _fam_result(fr, sc):
    return dict(summary=dict(name=fr.name, build=fr.build, events=fr.events, lines=fr.lines, decoded=fr.decoded,
                             classes=fr.classes, types=fr.types, violations=fr.nviol,
                             known_deviation_matches=fr.devs, wall_s=fr.wall_s),
                states=fr.states, transitions=fr.events, traces=len(sc.units), events=fr.events,
                distinct=fr.distinct_inputs, samples=[dict(family=fr.name, op=s) for s in fr.samples[:2]],
                violations=fr.viol, devs=fr.devs)


def cross(gen, name, other="alloc"):
    def run(prop, tier):
        from . import tlc as T
        sc = gen(tier)
        fr = E.cross_build(name, sc, "std", other, prop="C18", jobs=10, known=T.open_deviations(),
                           stateless_only=(other == "none"))
        return _fam_result(fr, sc)
    return run


def sweep_run(prop, tier):
    from . import sweep
    return sweep.run_sweep(prop, tier)


def apalache_run(prop, tier):
    from . import apalache
    return apalache.run_apalache(prop, tier)


def cli_run(prop, tier):
    from . import cli
    return cli.run_cli(prop, tier)


def cli_run_light(prop, tier):
    # the quick-sized stream set in both tiers: the deep CLI exploration belongs to C20's own thorough check
    from . import cli
    return cli.run_cli(prop, "quick")


def cli_twin_run(prop, tier):
    from . import cli
    return cli.run_cli_twin(prop, tier)


PARSER_MC = [mc("MC_Parser", "MC_Parser.cfg", workers=6),
             mc("MC_Parser", "MC_Parser_cap.cfg", workers=6, tier="thorough"),
             mc("MC_Parser", "MC_Parser_deep.cfg", workers=8, tier="thorough"),      # n <= 4, k <= 5
             mc("MC_Parser", "MC_Parser_two.cfg", workers=8, tier="thorough")]       # two parser instances

PLANS = {
    "C02": dict(
        mc=PARSER_MC + [mc("MC_Nmea", "MC_Nmea.cfg", workers=6)],
        families=[fam("checksum", F.fam_checksum, need_classes=["reject_checksum", "single", "continue", "deliver"]),
                  fam("corpus", F.fam_corpus)],
        custom=[dict(run=walk_std)],
        rule="GateInv over all histories of the bounded parser model; ParseLine/Shape agreement on the line universe; "
             "recorded lines: base sentences x all 256 transmitted values x hex forms, every single-byte corruption, "
             "wrong checksums inside open groups; distinct = distinct recorder operations"),
    "C03": dict(
        mc=[mc("MC_Armor", "MC_Armor.cfg", workers=8), mc("MC_Armor", "NC_Armor_emptyfill.cfg", expect="ArmorInv")],
        families=[fam("armor", F.fam_armor, builds=ALL3), fam("corpus", F.fam_corpus)],
        rule="UnarmorAlg = UnarmorReq = Unarmor for all strings of length 0..5 over 6 symbols and 6..12 over 2, fill 0..5; "
             "recorded inputs: all 256 bytes at length 1, length 2 grids, positional sweeps, lengths 0..40(90), long random strings"),
    "C04": dict(
        mc=[mc("MC_Layouts", "MC_Layouts.cfg")],
        families=[fam("fieldwalk", F.fam_fieldwalk), fam("randmsg", F.fam_random_messages, builds=ALL3), fam("corpus", F.fam_corpus),
                  fam("dechist", F.fam_decode_history, builds=("std",))],
        builds=ALL3,
        rule="cumulative code-order widths = ITU offsets for every field of every type (TLC); recorded: every field of every "
             "layout branch walked over its values on three backgrounds + random joint assignments"),
    "C05": dict(
        mc=PARSER_MC,
        families=[fam("frag", F.fam_frag, twin_merge=E.tag_twin_merge, need_classes=["open", "continue", "deliver"],
                      builds=("std", "none")),
                  fam("capacity", F.fam_capacity, builds=("none",)),
                  fam("corpus", F.fam_corpus)],
        custom=[dict(run=walk_std), dict(run=walk_none)],
        rule="ReassemblyInv over all histories of the bounded model; every path of length <= D over 22 abstract lines replayed; "
             "messages split into 2..9 fragments with histories, ids and noise, twin unfragmented decode"),
    "C06": dict(
        mc=PARSER_MC + [mc("MC_Parser", "NC_Parser_stale.cfg", expect="ProvenanceInv", workers=4),
                        mc("MC_Parser", "NC_Parser_underflow.cfg", expect="NoFault", workers=4)],
        families=[fam("seq", F.fam_seq, need_classes=["open", "continue", "deliver", "reject_seq_id", "reject_seq_no"],
                      builds=("std", "none")),
                  fam("capacity", F.fam_capacity, builds=("std", "none"))],
        custom=[dict(run=walk_std), dict(run=walk_none), dict(run=walk_alloc, tier="thorough"), dict(run=apalache_run)],
        rule="ProvenanceInv over all histories of the bounded model (negative controls: stale group, u8 underflow); "
             "EVERY path of length <= D over 22 abstract lines replayed into the real parser and judged against the TLC "
             "transition table; random streams with loss/duplication/reordering validated by the trace specification"),
    "C07": dict(
        mc=[mc("MC_Nmea", "MC_Nmea.cfg", workers=6)],
        families=[fam("fields", F.fam_fields, twin_merge=E.tag_twin_merge, need_classes=["single", "open", "continue", "deliver"]),
                  fam("seq", F.fam_seq, builds=("std", "none")), fam("capacity", F.fam_capacity, builds=("std", "none")),
                  fam("corpus", F.fam_corpus)],
        rule="ParseLine field extraction = Shape on the line universe; grammar-generated sentences, decode off/on twins"),
    "C08": dict(
        mc=[mc("MC_Nmea", "MC_Nmea.cfg", workers=6)],
        families=[fam("grammar", F.fam_grammar, need_classes=["reject_form", "single"]), fam("corpus", F.fam_corpus)],
        rule="ParseLine.ok <=> Shape on the generated line universe; every single-point mutation of seed sentences, "
             "boundary values of every field"),
    "C09": dict(
        mc=[mc("MC_Layouts", "MC_Layouts.cfg")],
        families=[fam("types", F.fam_types, need_types=list(range(1, 22)) + [24, 27]), fam("dechist", F.fam_decode_history)],
        exhaustive="both",
        rule="all 64 type values x legal-length messages x random contents, every byte length; exhaustive in the type"),
    "C10": dict(
        mc=[mc("MC_Pure", "MC_Pure.cfg", workers=1)],
        families=[fam("coords", F.fam_coords)],
        custom=[dict(run=sweep_run)],
        rule="SignedAlg = Signed exhaustively for widths <= 15; boundary-complete coordinate values in 22 fields x 3 backgrounds; "
             "all values of every speed / course / draught field"),
    "C11": dict(
        mc=[mc("MC_Layouts", "MC_Layouts.cfg")],
        families=[fam("sentinel", F.fam_sentinel)],
        custom=[dict(run=sweep_run)],
        rule="every optional numeric field: all values if <= 10(12) bits, else sentinel neighbourhood, extremes, random"),
    "C12": dict(
        mc=[mc("MC_Enums", "MC_Enums.cfg")],
        families=[fam("enums", F.fam_enums, builds=ALL3)],
        builds=ALL3,
        exhaustive="both",
        rule="every code of every enumerated field in every type carrying it x 3 backgrounds; ShipType 0..255 with round trip"),
    "C13": dict(
        mc=[mc("MC_Pure", "MC_Pure.cfg", workers=1)],
        families=[fam("text", F.fam_text), fam("dechist", F.fam_decode_history)],
        rule="table = formula for 0..63, Trim laws on strings <= 5 over 4 symbols (TLC); every character at every position, "
             "padding patterns at both ends, all-padding, maximal lengths, every field's alignment"),
    "C14": dict(
        mc=[mc("MC_Layouts", "MC_Layouts.cfg")],
        families=[fam("varlen", F.fam_varlen, builds=("std", "none"), twin_merge=E.tag_twin_merge), fam("types", F.fam_types)],
        builds=("std", "none"),
        rule="every supported type x every byte length 0..max+8 x contents; armored character counts x fill around legal lengths"),
    "C15": dict(
        mc=[mc("MC_Layouts", "MC_Layouts.cfg")],
        families=[fam("binary", F.fam_binary, builds=("std", "none"))],
        rule="types 6, 8, 17: every payload length 0..max+4 bytes x 3 content patterns, header walks, random"),
    "C16": dict(
        mc=[mc("MC_Layouts", "MC_Layouts.cfg")],
        families=[fam("radio", F.fam_radio, twin_merge=E.tag_twin_merge),
                  fam("radio-exhaustive", F.fam_radio_exhaustive, tier="thorough", twin_merge=E.tag_twin_merge)],
        rule="7 types x selector x preceding bit x 4 sync x 8 time-outs x sub-message values; thorough: all 2^19 / 2^20 states"),
    "C19": dict(
        mc=[mc("MC_Nmea", "MC_Nmea.cfg", workers=6)],
        families=[fam("mtype", F.fam_mtype)],
        exhaustive="both",
        rule="all 64 armoring characters (and all other bytes) as first payload character x 5 sentence shapes x decode on/off"),
    "C01": dict(
        mc=PARSER_MC + [mc("MC_Parser", "NC_Parser_underflow.cfg", expect="NoFault", workers=4),
                        mc("MC_Armor", "MC_Armor.cfg", workers=8),
                        mc("MC_Armor", "NC_Armor_emptyfill.cfg", expect="ArmorInv"),
                        mc("MC_Layouts", "MC_Layouts.cfg")],
        builds=ALL3,
        families=[fam("totality", F.fam_totality), fam("capacity", F.fam_capacity), fam("textsmall", F.fam_text_small),
                  fam("text", F.fam_text, builds=("none",), tier="thorough")],
        custom=[dict(run=walk_std), dict(run=walk_none)],
        rule="NoFault over all histories of the bounded parser model, UnarmorAlg fault-free on the bounded domain, every take of "
             "every layout fault-free at its static offset (TLC); recorded on all three builds (overflow checks on): "
             "history x fuzz-line product, unarmor at every length x fill, 64 types x every length, byte truncations",
        assumptions=["termination is observed by watchdog only (all loops in the crate are bounded `for`s over the input)"]),
    "C17": dict(
        mc=[mc("MC_Twin", "MC_Twin.cfg"), mc("MC_Twin", "MC_Twin_cap.cfg"), mc("MC_Twin", "MC_Twin_deep.cfg", tier="thorough"),
            mc("MC_Parser", "MC_Parser_two.cfg", workers=8, tier="thorough"),
            mc("MC_Twin", "NC_Twin_fragno.cfg", expect="TwinInv")] + PARSER_MC[:1],
        families=[fam("twin", F.fam_twin, twin_merge=E.tag_twin_merge, need_classes=["reject_form", "reject_checksum", "single", "reject_seq_no", "deliver"],
                      builds=("std", "none"))],
        custom=[dict(run=walk_std), dict(run=walk_none)],
        rule="TwinInv (2-safety by self-composition) over all histories of the bounded model; twin streams A / A-minus-removable "
             "fed to two interleaved parser instances, observations of the common lines compared; every path of length <= D "
             "replayed (a hidden state change shows up in every continuation)"),
    "C18": dict(
        mc=[mc("MC_Builds", "MC_Builds.cfg", workers=6), mc("MC_Builds", "NC_Builds_fragno.cfg", expect="Equiv"),
            mc("MC_Parser", "MC_Parser_cap.cfg", workers=6)],
        builds=ALL3,
        families=[fam("capacity", F.fam_capacity, builds=("std", "none")), fam("randmsg", F.fam_random_messages, builds=("none",)),
                  fam("textsmall", F.fam_text_small, builds=("none",)),
                  fam("frag", F.fam_frag, twin_merge=E.tag_twin_merge, builds=("none",)),
                  fam("text", F.fam_text, builds=("none",), tier="thorough"),
                  fam("varlen", F.fam_varlen, builds=("none",)),
                  # the alloc build: validated in full in the thorough tier, paired with std operation by operation always
                  fam("randmsg", F.fam_random_messages, builds=("alloc",), tier="thorough"),
                  fam("varlen", F.fam_varlen, builds=("alloc",), tier="thorough"),
                  fam("frag", F.fam_frag, twin_merge=E.tag_twin_merge, builds=("alloc",), tier="thorough")],
        custom=[dict(run=cross(F.fam_capacity, "capacity")), dict(run=cross(F.fam_random_messages, "randmsg")),
                dict(run=cross(F.fam_text_small, "textsmall")), dict(run=cross(F.fam_varlen, "varlen")),
                dict(run=cross(F.fam_text_small, "textsmall", "none")), dict(run=cross(F.fam_random_messages, "randmsg", "none")),
                dict(run=cross(F.fam_capacity, "capacity", "none")), dict(run=cross(F.fam_totality, "totality", "none")),
                dict(run=cross(F.fam_seq, "seq", "none")),
                dict(run=cross(F.fam_seq, "seq")), dict(run=cross(F.fam_grammar, "grammar")),
                dict(run=walk_none), dict(run=walk_alloc, tier="thorough")],
        rule="Equiv over all histories of the three lock-step builds (negative control: number advanced before the append); each "
             "build validated against the specification with its own capacities; std and alloc observations zipped and compared "
             "operation by operation; capacity boundaries 383/384/385 bytes, 118/119/120 data bytes, 19/20/21 characters"),
    "C20": dict(
        mc=[mc("MC_Cli", "MC_Cli.cfg"), mc("MC_Cli", "MC_Cli_deep.cfg", tier="thorough"),
            mc("MC_Cli", "NC_Cli_utf8.cfg", expect="CliSafety"),
            mc("MC_Cli", "NC_Cli_utf8_live.cfg", expect="CliTerminates")],
        custom=[dict(run=cli_run)],
        rule="CliSafety and termination (liveness under weak fairness) over all streams of <= 4 lines of the CLI process model; the "
             "real binary fed generated streams (valid, fragments, noise, invalid UTF-8, CR, empty lines, 100 kB lines, byte soup), "
             "one event per input line judged by the trace specification"),
}

# the properties that govern which lines are accepted and what a group delivers also watch the command-line
# tool: it is the one caller of the library inside the repository, and a change there (trimming, re-encoding,
# resetting the parser) alters what "a line is accepted" means for its users
for _pid in ("C02", "C05", "C06", "C08", "C09"):
    PLANS[_pid]["custom"] = list(PLANS[_pid].get("custom", [])) + [dict(run=cli_run_light)]

PLANS["C17"]["custom"] = list(PLANS["C17"].get("custom", [])) + [dict(run=cli_twin_run)]

# every check also runs the common core on the std and the no-allocator build
for _pid, _plan in PLANS.items():
    if _pid == "C20":
        continue
    _plan.setdefault("families", [])
    _plan["families"] = list(_plan["families"]) + [fam("core", F.fam_core, builds=ALL3, twin_merge=E.tag_twin_merge)]

