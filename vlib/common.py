"""Paths, seeds and small helpers shared by the checks."""
import hashlib, json, os, random, subprocess, sys, time

VERIF = os.path.dirname(os.path.dirname(os.path.abspath(__file__)))
# The registered commands always use /repo and /verif/harness.  The overrides exist only for the self-test
# (bin/seedtest2), which runs the same checks against a patched scratch copy without touching /repo.
REPO = os.environ.get("VERIF_REPO", "/repo")
SPEC = os.path.join(VERIF, "spec")
WORK = os.environ.get("VERIF_WORK", os.path.join(VERIF, "work"))
HARNESS = os.environ.get("VERIF_HARNESS", os.path.join(VERIF, "harness"))
EVIDENCE = os.environ.get("VERIF_EVIDENCE", os.path.join(VERIF, "evidence"))
REPLAYS = os.environ.get("VERIF_REPLAYS", os.path.join(VERIF, "replays"))
TLCW = os.path.join(VERIF, "bin", "tlcw")
BUILDS = ("std", "alloc", "none")


class ToolError(Exception):
    """The machinery itself failed (never used for a fault of the code under test)."""


def seed():
    try:
        return int(os.environ.get("VERIF_SEED", "1"))
    except ValueError:
        return 1


def rng(tag):
    h = hashlib.sha256(("%d:%s" % (seed(), tag)).encode()).digest()
    return random.Random(int.from_bytes(h[:8], "big"))


def ensure(d):
    os.makedirs(d, exist_ok=True)
    return d


def run(cmd, timeout=None, env=None, cwd=None, stdin=None):
    e = dict(os.environ)
    if env:
        e.update(env)
    p = subprocess.run(cmd, stdout=subprocess.PIPE, stderr=subprocess.STDOUT, timeout=timeout,
                       env=e, cwd=cwd, input=stdin)
    return p.returncode, p.stdout.decode("utf-8", "replace")


def hexs(b):
    return bytes(b).hex() if len(b) else "-"


def log(*a):
    print(*a, file=sys.stderr, flush=True)


def tlc_string_payload(out, tag):
    """Extract the JSON strings printed by PrintT(<<tag, ToJson(..)>>)."""
    res = []
    key = '<<"%s", "' % tag
    i = 0
    while True:
        i = out.find(key, i)
        if i < 0:
            break
        j = out.find('">>', i)
        if j < 0:
            break
        raw = out[i + len(key):j]
        # TLC prints long strings wrapped over lines? (it does not); unescape \" and \\
        s = raw.replace('\\\\', '\x00').replace('\\"', '"').replace('\x00', '\\')
        res.append(s)
        i = j + 3
    return res
