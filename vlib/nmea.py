"""Building NMEA lines (bytes)."""


def xor(bs):
    c = 0
    for x in bs:
        c ^= x
    return c


def body(addr=b"AIVDM", n=1, k=1, sid=None, chan=b"A", payload=b"15M", fill=0):
    def num(v):
        return v if isinstance(v, bytes) else str(v).encode()
    return (addr + b"," + num(n) + b"," + num(k) + b"," + (b"" if sid is None else num(sid)) + b","
            + chan + b"," + bytes(payload) + b"," + num(fill))


def line(addr=b"AIVDM", n=1, k=1, sid=None, chan=b"A", payload=b"15M", fill=0, delim=b"!", tag=None,
         ck=None, tail=b"", lower=False):
    b = body(addr, n, k, sid, chan, payload, fill)
    c = xor(b) if ck is None else ck
    hx = ("%02x" if lower else "%02X") % c if isinstance(c, int) else c
    if isinstance(hx, str):
        hx = hx.encode()
    pre = b"" if tag is None else b"\\" + tag + b"\\"
    return pre + delim + b + b"*" + hx + tail


ARMOR = bytes(list(range(48, 88)) + list(range(96, 120)))


def armor_char(v):
    return ARMOR[v]


def armor(bits_or_bytes, nbits=None):
    """bytes -> (armored payload bytes, fill). nbits: number of meaningful bits (default 8*len)."""
    data = bytes(bits_or_bytes)
    if nbits is None:
        nbits = 8 * len(data)
    nchars = (nbits + 5) // 6
    fill = nchars * 6 - nbits
    val = int.from_bytes(data, "big") if data else 0
    total = 8 * len(data)
    out = bytearray()
    for i in range(nchars):
        off = 6 * i
        v = 0
        for j in range(6):
            p = off + j
            bit = (val >> (total - 1 - p)) & 1 if p < min(nbits, total) else 0
            v = (v << 1) | bit
        out.append(ARMOR[v])
    return bytes(out), fill
