"""C10 / C11: exhaustive (thorough) or strided (quick) sweep of every raw value of every coordinate field,
run in-process by the recorder binary and judged there by the same integer inequality as AisDecode!Close,
with width / offset / scale / sentinel taken from the tables the specification exported in this run.
Failing raw values are re-run as ordinary `decode` operations so that the trace specification confirms them."""
import json, os, time
from .common import *
from . import build as B, tlc as T, engine as E, enc
from . import families as F


def run_sweep(prop, tier):
    t0 = time.time()
    tb = T.tables()
    rnd = rng("sweep")
    sent = tb["sentinels"]
    stride = 1 if tier == "thorough" else 4099
    total = 0
    bad = 0
    absent = 0
    per_field = []
    suspects = E.Scenario()
    suspects.unit()
    for (t, nm) in F.COORD_FIELDS:
        s = F.shape_of(t)
        off, w = tb["itu"][enc.layout_key(t)][nm]
        key = {28: "lon28", 27: "lat27", 18: "lon18", 17: "lat17"}[w]
        P, Q = (5, 3) if w >= 27 else (5000, 3)
        buf = enc.BitBuf(s[1], rnd=rnd)
        buf.put(0, 6, t)
        tmpl = buf.bytes()
        rc, out = run([B.recorder_path("std"), "sweep", str(t), nm, str(off), str(w), str(P), str(Q), str(sent[key]),
                       tmpl.hex(), "14", str(stride)], timeout=3600)
        try:
            r = json.loads(out.strip().split("\n")[-1])
        except Exception:
            raise ToolError("sweep of type %d %s failed: %s" % (t, nm, out[-500:]))
        total += r["checked"]
        bad += r["bad"]
        absent += r["absent"]
        per_field.append(dict(type=t, field=nm, width=w, checked=r["checked"], absent=r["absent"], bad=r["bad"]))
        # exactly one raw value (the sentinel) may be absent when the sweep is complete
        for f in r["fails"]:
            b2 = enc.BitBuf(s[1])
            b2.v = int.from_bytes(tmpl, "big") >> (8 * len(tmpl) - s[1])
            b2.put(off, w, f["raw"])
            suspects.decode(b2.bytes())
        if stride == 1 and r["bad"] == 0 and r["absent"] != 1:
            raise ToolError("sweep bookkeeping: %d absent values for type %d %s" % (r["absent"], t, nm))
    viols = []
    devs = {}
    states = 0
    if suspects.n_ops():
        fr = E.run_family("sweep-suspects", suspects, "std", jobs=4, known=T.open_deviations())
        viols = fr.viol
        devs = fr.devs
        states = fr.states
        if bad and not viols:
            raise ToolError("the sweep flagged %d values that the trace specification accepts: harness and specification disagree" % bad)
    summary = dict(name="coordinate-sweep", build="std", stride=stride, fields=len(per_field), values_checked=total,
                   absent=absent, flagged=bad, per_field=per_field, wall_s=round(time.time() - t0, 1))
    return dict(summary=summary, states=states, transitions=total, traces=len(per_field), events=total, distinct=total,
                samples=[dict(family="coordinate-sweep", field=per_field[0])], violations=viols, devs=devs)
