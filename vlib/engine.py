"""Scenario -> recorder -> trace -> TLC pipeline, sharding, verdict collection, replay files."""
import concurrent.futures, json, os, shutil, subprocess, time
from .common import *
from . import build as B
from . import tlc as T


class Scenario:
    """A list of units; a unit is a list of recorder operations that must stay in one shard
    (e.g. the whole history of one logical parser)."""

    def __init__(self):
        self.units = []
        self.cur = None

    def unit(self):
        self.cur = []
        self.units.append(self.cur)
        return self

    def _add(self, s):
        if self.cur is None:
            self.unit()
        self.cur.append(s)

    def new(self, p=0):
        self._add("N %d" % p)

    def line(self, b, p=0, dec=0, tag=None):
        self._add("L %d %d %s%s" % (p, 1 if dec else 0, hexs(b), (" " + tag) if tag else ""))

    def unarmor(self, b, fill, tag=None):
        self._add("U %d %s%s" % (fill, hexs(b), (" " + tag) if tag else ""))

    def decode(self, b, tag=None):
        self._add("D %s%s" % (hexs(b), (" " + tag) if tag else ""))

    def ship(self, c):
        self._add("S %d" % c)

    def rot(self, c):
        self._add("R %d" % c)

    def meta(self, d):
        self._add("M " + json.dumps(dict(d, op="meta")))

    def n_ops(self):
        return sum(len(u) for u in self.units)


def shard_units(units, nshards, max_ops=6000):
    """Greedy split of units into shards of similar size (a unit is never split)."""
    total = sum(len(u) for u in units)
    nshards = max(1, min(nshards, max(1, total // 200)))
    target = max(1, min(max_ops, (total + nshards - 1) // nshards))
    shards, cur, n = [], [], 0
    for u in units:
        if n and n + len(u) > target:
            shards.append(cur)
            cur, n = [], 0
        cur.append(u)
        n += len(u)
    if cur:
        shards.append(cur)
    return shards


def plan_shards(scenario, jobs):
    return shard_units(scenario.units, jobs * 2 if scenario.n_ops() > 4000 else jobs)


class FamilyResult:
    def __init__(self, name, build):
        self.name, self.build = name, build
        self.events = 0
        self.lines = 0
        self.unspec = 0
        self.lostskip = 0
        self.decoded = 0
        self.classes = {}
        self.types = {}
        self.nviol = {}
        self.devs = {}
        self.viol = []          # dicts: prop, all, what, ops(unit), event, shard
        self.states = 0
        self.distinct_inputs = 0
        self.samples = []
        self.wall_s = 0.0


OPNAME = {"L": "line", "U": "unarmor", "D": "decode", "S": "ship", "R": "rot", "N": "new", "M": "meta"}


def _stand_in(opline, kind):
    op = opline.split(" ")
    stand = {"op": OPNAME.get(op[0], "meta"), "r": "panic", "pmsg": kind, "agree": 1, "p": 0, "dec": 0, "b": [],
             "fill": 0, "code": 0, "raw": 0}
    if op[0] == "L":
        stand.update(p=int(op[1]), dec=int(op[2]), b=list(bytes.fromhex(op[3])) if op[3] != "-" else [])
    elif op[0] == "U":
        stand.update(fill=int(op[1]), b=list(bytes.fromhex(op[2])) if op[2] != "-" else [])
    elif op[0] == "D":
        stand.update(b=list(bytes.fromhex(op[1])) if op[1] != "-" else [])
    return json.dumps(stand).encode()


def _record_shard(build, ops, base, unit_starts=None):
    """Records one shard.  If the recorder process dies or hangs (an abort / non-termination of the code under
    test is data, not a tool error), the operation at which output stopped gets a stand-in observation with
    r = "panic", the operations up to the next scenario unit are marked skipped, and recording resumes there in a
    fresh process (at most 3 times per shard)."""
    scen = base + ".scen"
    trace = base + ".ndjson"
    events = []
    start = 0
    aborted = None
    restarts = 0
    while start < len(ops):
        part = ops[start:]
        with open(scen, "w") as f:
            f.write("\n".join(part))
            f.write("\n")
        tmo = 20 + len(part) // 100
        try:
            rc, out = B.record(build, scen, trace, timeout=tmo)
        except subprocess.TimeoutExpired:
            rc, out = -999, "timeout"
        if rc == 0:
            events += [l for l in open(trace, "rb").read().split(b"\n") if l]
            break
        try:
            run([B.recorder_path(build), scen, trace], timeout=tmo, env={"AISOBS_FLUSH": "1"})
        except subprocess.TimeoutExpired:
            pass
        lines = open(trace, "rb").read().split(b"\n") if os.path.exists(trace) else []
        good = [l for l in lines if l.endswith(b"}")]
        idx = len(good)
        kind = "hang (watchdog: no answer within %d s)" % tmo if rc == -999 else "abort (exit status %s)" % rc
        events += good
        if idx >= len(part):
            break
        events.append(_stand_in(part[idx], kind))
        aborted = (start + idx, kind)
        restarts += 1
        absidx = start + idx
        nxt = None
        if unit_starts and restarts <= 3:
            nxt = next((u for u in unit_starts if u > absidx), None)
        end_skip = nxt if nxt is not None else len(ops)
        for j in range(absidx + 1, end_skip):
            events.append(json.dumps({"op": "skipped", "why": "after " + kind}).encode())
        start = end_skip
    with open(trace, "wb") as f:
        f.write(b"\n".join(events) + b"\n")
    return trace, aborted


def run_family(name, scenario, build, jobs=8, known=None, twin_merge=None, keep=False):
    """Records and validates one scenario family on one build."""
    t0 = time.time()
    fr = FamilyResult(name, build)
    wdir = ensure(os.path.join(WORK, "fam_%d_%s_%s" % (os.getpid(), name, build)))
    shards = plan_shards(scenario, jobs)
    flat = [[op for u in sh for op in u] for sh in shards]
    # unit boundaries per shard, to cut replay files
    bounds = []
    for sh in shards:
        b, i = [], 0
        for u in sh:
            b.append((i, i + len(u)))
            i += len(u)
        bounds.append(b)
    seen = set()
    for ops in flat:
        for op in ops:
            if op[0] in "LUD SR":
                seen.add(hash(op))
    fr.distinct_inputs = len(seen)

    def work(i):
        base = os.path.join(wdir, "s%03d" % i)
        trace, aborted = _record_shard(build, flat[i], base, [a for (a, b) in bounds[i]])
        if twin_merge:
            twin_merge(trace, i)
        res = T.validate_trace(trace, build, known)
        return i, trace, res, aborted

    with concurrent.futures.ThreadPoolExecutor(max_workers=jobs) as ex:
        results = list(ex.map(work, range(len(flat))))
    generr = 0
    for i, trace, res, aborted in results:
        fr.events += res["events"]
        fr.lines += res["lines"]
        fr.unspec += res["unspec"]
        fr.lostskip += res["lostskip"]
        fr.decoded += res["decoded"]
        generr += res.get("generr", 0)
        fr.states += res["states"]
        for k, v in res["class"].items():
            fr.classes[k] = fr.classes.get(k, 0) + v
        for k, v in res.get("types", []):
            fr.types[str(k)] = fr.types.get(str(k), 0) + v
        for k, v in (res.get("nviol") or {}).items():
            fr.nviol[k] = fr.nviol.get(k, 0) + v
        for k, v in (res.get("devs") or {}).items():
            fr.devs[k] = fr.devs.get(k, 0) + v
        if res["events"] != len(flat[i]):
            raise ToolError("family %s shard %d: %d events for %d operations" % (name, i, res["events"], len(flat[i])))
        tl = None
        for v in res.get("viol", []):
            idx = v["i"] - 1
            if tl is None:
                tl = open(trace, "rb").read().split(b"\n")
            unit = next(((a, b) for (a, b) in bounds[i] if a <= idx < b), (idx, idx + 1))
            fr.viol.append(dict(prop=v["prop"], all=v["all"], what=v["what"], build=build, family=name,
                                ops=flat[i][unit[0]:idx + 1],
                                event=json.loads(tl[idx].decode("utf-8", "replace")) if idx < len(tl) else None))
        if not fr.samples and flat[i]:
            fr.samples = flat[i][:3]
    if not keep:
        shutil.rmtree(wdir, ignore_errors=True)
    if generr and not fr.nviol:
        # on a conforming run the specification must agree with the generator's labels; once the code has
        # deviated the tracked state may differ from the generator's view, and the labels mean nothing
        raise ToolError("family %s: %d line(s) labelled removable by the generator are not removable per the specification" % (name, generr))
    fr.wall_s = round(time.time() - t0, 1)
    return fr


def tag_twin_merge(trace, shard_index=0):
    """Events tagged  A:<key>  are sources; an event tagged  B:<key>:<prop>:<mode>:<why>  receives the
    source's observation as `twin` (the specification says the two must be observationally equal).
    Pairing only - the comparison is made by the trace specification."""
    lines = open(trace, "rb").read().split(b"\n")
    src = {}
    evs = []
    for ln in lines:
        if not ln:
            continue
        e = json.loads(ln)
        evs.append(e)
        t = e.get("tag", "")
        if t.startswith("A:"):
            src[t[2:]] = e
    out = []
    for e in evs:
        t = e.get("tag", "")
        if t.startswith("B:"):
            parts = t.split(":")
            key = parts[1]
            if key in src:
                a = src[key]
                e["twin"] = {k: a[k] for k in ("r", "s", "ck", "msg", "out") if k in a}
                e["twinprop"] = parts[2] if len(parts) > 2 else "C17"
                e["twinmode"] = parts[3] if len(parts) > 3 else "full"
                e["twinwhy"] = parts[4] if len(parts) > 4 else "twin"
        out.append(json.dumps(e, separators=(",", ":")))
    with open(trace, "w") as f:
        f.write("\n".join(out) + "\n")


def cross_build(name, scenario, build_a="std", build_b="alloc", prop="C18", jobs=8, known=None, stateless_only=False):
    """Records the same scenario on two builds and hands build_b's observation of every operation to the
    trace specification as the `twin` of build_a's (they must be observationally identical)."""
    wdir = ensure(os.path.join(WORK, "cross_%d_%s" % (os.getpid(), name)))
    shards = plan_shards(scenario, jobs)
    flat = [[op for u in sh for op in u] for sh in shards]
    other = {}
    for i, ops in enumerate(flat):
        tr, _ = _record_shard(build_b, ops, os.path.join(wdir, "b%03d" % i))
        other[i] = [json.loads(l) for l in open(tr, "rb").read().split(b"\n") if l]

    def merge(trace, i):
        evs = [json.loads(l) for l in open(trace, "rb").read().split(b"\n") if l]
        out = []
        diverged = set()        # parser ids whose two histories are no longer the same
        for j, e in enumerate(evs):
            a = other[i][j] if j < len(other[i]) else None
            if e.get("op") == "new":
                diverged.discard(e.get("p"))
            if a is not None and e.get("op") in ("line", "unarmor", "decode") and a.get("op") == e.get("op"):
                pair = True
                mode = "full"
                if stateless_only:
                    # the other build has fixed capacities.  Pure operations are always paired, and the trace
                    # specification decides whether an error there is excused by a capacity (mode "nonecap").
                    # Lines are paired as long as both builds have returned the same kind of result for every
                    # earlier line of this parser: after the first difference (a capacity rejection) the
                    # reassembly histories legitimately differ until the next `new`.
                    mode = "nonecap"
                    if e["op"] == "line":
                        p = e.get("p")
                        val_a = a.get("r") in ("complete", "incomplete")
                        val_e = e.get("r") in ("complete", "incomplete")
                        sn, sk = e.get("s", {}).get("n"), e.get("s", {}).get("k")
                        if p in diverged:
                            # history-free lines are still paired: an unfragmented sentence, and the opening
                            # fragment of a group - which also makes the two histories the same again when
                            # both builds accept it
                            pair = False
                            if val_e and sn == 1 and sk == 1:
                                pair = True
                            elif val_e and e.get("r") == "incomplete" and sk == 1 and sn is not None and sn > 1:
                                pair = True
                                if a.get("r") == "incomplete":
                                    diverged.discard(p)
                        elif val_a != val_e or (val_a and a.get("r") != e.get("r")):
                            diverged.add(p)
                            # the diverging line itself is paired only when it is history-free
                            pair = e.get("s", {}).get("n") == 1 and e.get("s", {}).get("k") == 1 if val_e else False
                if pair:
                    e["twin"] = {k: a[k] for k in ("r", "s", "ck", "msg", "out") if k in a}
                    e["twinprop"], e["twinmode"], e["twinwhy"] = prop, mode, "%s-vs-%s" % (build_a, build_b)
            out.append(json.dumps(e, separators=(",", ":")))
        open(trace, "w").write("\n".join(out) + "\n")
    fr = run_family(name + "-" + build_a + "=" + build_b, scenario, build_a, jobs=jobs, known=known, twin_merge=merge)
    shutil.rmtree(wdir, ignore_errors=True)
    return fr


def write_replay(prop, v):
    ensure(REPLAYS)
    blob = json.dumps(dict(property=prop, build=v["build"], family=v["family"], what=v["what"],
                           violates=v["all"], ops=v["ops"], observed=v["event"]), indent=1)
    h = hashlib.sha256(blob.encode()).hexdigest()[:12]
    path = os.path.join(REPLAYS, "%s-%s.json" % (prop, h))
    open(path, "w").write(blob)
    return path


def replay(path):
    """Re-runs a replay file through the recorder and the trace specification."""
    d = json.load(open(path))
    if d["ops"] and d["ops"][0].startswith("STDIN "):
        # a command-line run: feed the recorded stdin to the real binary again and validate its events
        from . import cli
        B.build_cli()
        data = bytes.fromhex(d["ops"][0][6:])
        if len(d["ops"]) >= 3 and d["ops"][1].startswith("WITHOUT "):
            rem = {int(x) for x in d["ops"][2][8:].split(",") if x}
            evs = [e for (_, es) in cli.twin_events((bytes.fromhex(d["ops"][1][8:]), data, rem)) for e in es]
        else:
            evs = cli.events_of(data)
        wdir = ensure(os.path.join(WORK, "replay_%d" % os.getpid()))
        p = os.path.join(wdir, "cli.ndjson")
        with open(p, "w") as f:
            for ev in evs:
                f.write(json.dumps(ev, separators=(",", ":")) + "\n")
        res = T.validate_trace(p, "std")
        shutil.rmtree(wdir, ignore_errors=True)
        fr = FamilyResult("replay", "cli")
        fr.events = res["events"]
        fr.nviol = res.get("nviol") or {}
        fr.viol = [dict(prop=v["prop"], all=v["all"], what=v["what"], build="cli", family="replay", ops=d["ops"], event=None)
                   for v in res.get("viol", [])]
        return d, fr, [v for v in fr.viol if d["property"] in v["all"]]
    B.build_recorders((d["build"],))
    sc = Scenario()
    sc.unit()
    for op in d["ops"]:
        sc._add(op)
    fr = run_family("replay", sc, d["build"], jobs=1)
    hit = [v for v in fr.viol if d["property"] in v["all"]]
    return d, fr, hit
