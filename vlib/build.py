"""Builds the three recorders (and the CLI) from /repo's current working tree."""
import os, shutil
from .common import *


def recorder_path(build):
    return os.path.join(HARNESS, "target-%s" % build, "release", "aisobs")


def cli_path():
    return os.path.join(HARNESS, "target-cli", "release", "aisparser")


def build_recorders(builds=BUILDS):
    lock = os.path.join(HARNESS, "Cargo.lock")
    if not os.path.exists(lock):
        shutil.copy(os.path.join(REPO, "Cargo.lock"), lock)
    env = {"CARGO_NET_OFFLINE": "true"}
    for b in builds:
        rc, out = run(["cargo", "build", "--release", "--offline", "--features", b,
                       "--target-dir", "target-%s" % b], cwd=HARNESS, env=env, timeout=1200)
        if rc != 0:
            raise ToolError("cargo build of the %s recorder failed:\n%s" % (b, out[-3000:]))
    return {b: recorder_path(b) for b in builds}


def build_cli():
    env = {"CARGO_NET_OFFLINE": "true",
           "CARGO_PROFILE_RELEASE_OVERFLOW_CHECKS": "true",
           "CARGO_PROFILE_RELEASE_DEBUG_ASSERTIONS": "true"}
    rc, out = run(["cargo", "build", "--release", "--offline", "--bin", "aisparser",
                   "--manifest-path", os.path.join(REPO, "Cargo.toml"),
                   "--target-dir", os.path.join(HARNESS, "target-cli")], env=env, timeout=1200)
    if rc != 0:
        raise ToolError("cargo build of the CLI failed:\n%s" % out[-3000:])
    return cli_path()


def record(build, scenario_path, trace_path, timeout=600):
    """Runs the recorder; returns number of events written. An abort/hang is data."""
    rc, out = run([recorder_path(build), scenario_path, trace_path], timeout=timeout)
    return rc, out
