"""C20: streams written to the real `aisparser` binary's stdin; stdout / stderr / exit status captured,
records attributed to input lines by an inline marker, one event per input line, judged by the trace
specification (AisTrace!EvCli) which recomputes each line's class with the full specification."""
import json, os, re, shutil, subprocess, time
from .common import *
from . import build as B, tlc as T, nmea, corpus, engine as E
from . import families as F

MARK = re.compile(rb"i:(\d{7})")
VARIANT = re.compile(rb"\tSome\((\w+)\(")


def marker(i):
    return b"i:%07d" % i


def split_lines(data):
    """mirror of BufRead::split(b'\\n'): no trailing empty element"""
    parts = data.split(b"\n")
    if parts and parts[-1] == b"":
        parts.pop()
    return parts


def run_stream(data, timeout=120):
    exe = B.cli_path()
    try:
        p = subprocess.run([exe], input=data, stdout=subprocess.PIPE, stderr=subprocess.PIPE, timeout=timeout)
        return p.returncode, p.stdout, p.stderr, False
    except subprocess.TimeoutExpired as ex:
        return -999, ex.stdout or b"", ex.stderr or b"", True


def events_of(data):
    """one event per input line + the final event"""
    lines = split_lines(data)
    rc, out, err, hung = run_stream(data)
    recs_out = split_lines(out)
    # stderr may also carry a panic message (thread 'main' panicked ...): those lines are not records
    recs_err_all = split_lines(err)
    panic_lines = [r for r in recs_err_all if r.startswith(b"thread '") or r.startswith(b"note: ") or b"panicked at" in r
                   or r.startswith(b"called `") or r.startswith(b"stack backtrace")]
    recs_err = [r for r in recs_err_all if r not in panic_lines]
    idx_of = {}
    empties = []
    for i, ln in enumerate(lines):
        m = MARK.search(ln)
        if m and int(m.group(1)) not in idx_of:
            idx_of[int(m.group(1))] = i
        elif not m:
            empties.append(i)
    n_out = [0] * len(lines)
    n_err = [0] * len(lines)
    variant = [""] * len(lines)
    unattributed = 0
    ordered = 1

    def attribute(recs, counts, is_out):
        nonlocal unattributed, ordered
        lastpos = -1
        unmarked_seen = 0
        for r in recs:
            m = MARK.search(r)
            pos = None
            if m and int(m.group(1)) in idx_of:
                pos = idx_of[int(m.group(1))]
            elif not m:
                # unmarked records belong to the unmarked lines, in order
                if is_out or unmarked_seen >= len(empties):
                    unattributed += 1
                    continue
                pos = empties[unmarked_seen]
                unmarked_seen += 1
            else:
                unattributed += 1
                continue
            counts[pos] += 1
            if pos < lastpos:
                ordered = 0
            lastpos = pos
            if is_out:
                v = VARIANT.search(r)
                if v:
                    variant[pos] = v.group(1).decode()
                else:
                    # another record layout: the first known variant name that opens a Debug rendering
                    hits = [(r.find(n.encode() + b"("), n) for n in set(T.tables()["variants"].values())]
                    hits = [h for h in hits if h[0] >= 0]
                    variant[pos] = min(hits)[1] if hits else ("None" if b"\tNone" in r else "?")
    attribute(recs_out, n_out, True)
    attribute(recs_err, n_err, False)
    consumed = max([i for i in range(len(lines)) if n_out[i] or n_err[i]] + [-1]) + 1
    evs = [dict(op="new", p=0)]
    for i, ln in enumerate(lines):
        evs.append(dict(op="cli", i=i, b=list(ln), out=n_out[i], err=n_err[i], variant=variant[i]))
    evs.append(dict(op="cliend", exit=rc if rc >= 0 else 128 - rc if rc > -999 else 999, ordered=ordered,
                    unattributed=unattributed, consumed=consumed, total=len(lines), hung=1 if hung else 0,
                    panic=(panic_lines[0].decode("utf-8", "replace")[:200] if panic_lines else "")))
    return evs


# ---------------------------------------------------------------------------
def tagged(i, **kw):
    return nmea.line(tag=marker(i) + kw.pop("tagextra", b""), **kw)


def gen_streams(tier):
    """list of byte streams"""
    rnd = rng("cli")
    tb = T.tables()
    thorough = tier == "thorough"
    streams = []
    ctr = [0]

    def nxt():
        ctr[0] += 1
        return ctr[0]

    def valid_single(nonutf8=False):
        buf = F.rand_message(tb, rnd)
        pay, fill = nmea.armor(buf.bytes(), buf.n)
        extra = b"\xff\xfe" if nonutf8 else b""
        return tagged(nxt(), payload=pay, fill=fill, tagextra=extra, chan=rnd.choice([b"A", b"B"]))

    def group(n, nonutf8=False):
        buf = F.rand_message(tb, rnd)
        pay, fill = nmea.armor(buf.bytes(), buf.n)
        n = min(n, len(pay))
        cuts = F.split_points(rnd, len(pay), n)
        sid = rnd.choice([None, 1, 7])
        return [tagged(nxt(), n=n, k=k, sid=sid, payload=pay[cuts[k - 1]:cuts[k]], fill=fill if k == n else 0,
                       tagextra=b"\x80" if nonutf8 else b"") for k in range(1, n + 1)]

    def noise(nonutf8=False):
        k = rnd.randrange(7)
        i = nxt()
        hi = b"\xc3\x28\xff" if nonutf8 else b""
        if k == 0:
            return b"noise " + marker(i) + b" " + hi + F.field_bytes(rnd, rnd.randrange(0, 30), allow_high=nonutf8).replace(b"\n", b" ")
        if k == 1:
            kw = dict(payload=F.rand_armor(rnd, rnd.randrange(1, 30)))
            return nmea.line(tag=marker(i) + hi, ck=nmea.xor(nmea.body(**kw)) ^ 0x40, **kw)
        if k == 2:
            return nmea.line(tag=marker(i) + hi, n=3, k=2, sid=9, payload=F.rand_armor(rnd, 5))         # out of sequence
        if k == 3:
            return nmea.line(tag=marker(i) + hi, payload=b"0" + F.rand_armor(rnd, 10))                 # type 0: decode error
        if k == 4:
            return nmea.line(tag=marker(i) + hi, payload=b"1" + F.rand_armor(rnd, 3))                  # too short
        if k == 5:
            return b"$GPGGA," + marker(i) + b",123519,4807.038,N" + hi
        if rnd.random() < 0.5:      # numbering outside 1 <= k <= n (what is printed is not judged; surviving it is)
            n, kk = rnd.choice([(0, 1), (2, 3), (1, 2), (0, 0), (1, 0), (255, 255), (3, 200)])
            return nmea.line(tag=marker(i) + hi, n=n, k=kk, sid=rnd.choice([None, 1]), payload=F.rand_armor(rnd, rnd.randrange(1, 20)))
        return nmea.line(tag=marker(i) + hi, payload=b"", fill=0)

    def assemble(lines, term=b"\n", final_newline=True):
        ctr[0] = 0          # markers need to be unique within one stream only
        seen = [m for ln in lines for m in MARK.findall(ln)[:1]]
        if len(seen) != len(set(seen)):
            raise ToolError("stream generator reused a marker within one stream")
        data = term.join(lines)
        if final_newline and lines:
            data += term
        return data

    # hand-made streams
    streams.append(b"")
    streams.append(b"\n")
    streams.append(b"\n\n\n")
    streams.append(assemble([valid_single()]))
    streams.append(assemble([valid_single()], final_newline=False))
    streams.append(assemble([valid_single(), valid_single()], term=b"\r\n"))
    streams.append(assemble(group(3)))
    streams.append(assemble([valid_single(), b"", noise(), b"", valid_single()]))
    streams.append(assemble([valid_single(), noise(True), valid_single()]))                 # invalid UTF-8 on the error path
    streams.append(assemble([valid_single(True), valid_single()]))                          # ... on the output path
    streams.append(assemble([valid_single(), b"\xff\xfe\xfd " + marker(nxt()), valid_single()]))
    streams.append(assemble([b"\x00" + marker(nxt()), b"\r", b"\r\r", valid_single()]))
    streams.append(assemble([b"x" * 100000 + marker(nxt()), valid_single()]))
    # lines of exactly the lengths at which a fixed read buffer would fill (with and without a CR)
    for L in (255, 256, 511, 512, 1023, 1024, 2047, 2048, 4095, 4096, 8191, 8192, 65535, 65536):
        for d in (-1, 0, 1):
            head = b"pad " + marker(nxt()) + b" "
            streams.append(assemble([valid_single(), head + b"x" * (L + d - len(head)), valid_single(), valid_single()]))
    streams.append(assemble([valid_single(), b"y" * 5000 + marker(nxt())], final_newline=False))    # over-long unterminated last line
    streams.append(assemble([valid_single(), nmea.line(tag=marker(nxt()), n=0, k=1, payload=b"15M"), valid_single()]))
    # a complete group whose payload does not decode, then an orphan tail with the same id: still an orphan
    for bad in (b"F", b"X", b"0"):
        i1, i2, i3 = nxt(), nxt(), nxt()
        streams.append(assemble([valid_single(),
                                 nmea.line(tag=marker(i1), n=2, k=1, sid=1, payload=bad + F.rand_armor(rnd, 9)),
                                 nmea.line(tag=marker(i2), n=2, k=2, sid=1, payload=F.rand_armor(rnd, 5) + (b"X" if bad == b"X" else b"0")),
                                 nmea.line(tag=marker(i3), n=3, k=3, sid=1, payload=corpus.PAYLOADS[0][0]),
                                 valid_single()]))
    # bytes in front of the start delimiter (white space included) make a line ill-formed; bytes after the
    # checksum are ignored
    for pre in (b" ", b"\t", b"\r", b"\x0c", b"  \t ", b"x", b"\xc1", b"\x00"):
        streams.append(assemble([valid_single(), pre + valid_single(), valid_single() + b" ", valid_single() + b"\r",
                                 valid_single()]))
    # bytes that are not UTF-8 inside the checksummed span (channel, address): the checksum is taken over the
    # bytes received, not over a re-encoded text
    for hi in (b"\xc1", b"\xff", b"\x80", b"\xe2\x82"):
        buf = F.rand_message(tb, rnd)
        pay, fill = nmea.armor(buf.bytes(), buf.n)
        kw = dict(payload=pay, fill=fill, chan=hi)
        lossy = hi.decode("utf-8", "replace").encode("utf-8")
        streams.append(assemble([valid_single(), nmea.line(tag=marker(nxt()), **kw), valid_single()]))
        streams.append(assemble([valid_single(),
                                 nmea.line(tag=marker(nxt()), ck=nmea.xor(nmea.body(**dict(kw, chan=lossy))), **kw),
                                 valid_single()]))
    # a rejected line between the fragments of a group does not disturb the group
    for n in (2, 3, 4):
        for pos in range(1, n):
            g = group(n)
            streams.append(assemble(g[:pos] + [noise()] + g[pos:] + [valid_single()]))
    # after a delivered group (and on an idle tool): a decodable sentence numbered outside 1 <= k <= n
    for (n0, k0) in ((0, 1), (0, 1), (1, 2), (2, 3), (0, 2), (255, 255)):
        g = group(rnd.randrange(2, 4))
        buf = F.rand_message(tb, rnd)
        pay, fill = nmea.armor(buf.bytes(), buf.n)
        oddl = nmea.line(tag=marker(nxt()), n=n0, k=k0, payload=pay, fill=fill)
        streams.append(assemble(g + [oddl, valid_single()]))
    g3 = group(3)
    streams.append(assemble([g3[0], g3[1], nmea.line(tag=marker(nxt()), n=2, k=3, sid=None, payload=b"0000"), valid_single()]))
    streams.append(assemble([(b"\\" + marker(nxt()) + b"\\" + s) if not s.startswith(b"\\") and s.startswith(b"!") else (b"junk " + marker(nxt()))
                             for s in corpus.SENTENCES]))
    # what the other properties' families feed to the library, as command-line input: every message of the
    # compact text family (padding-only fields etc.), capacity boundaries, a sample of the totality fuzz lines
    def mark(ln, i):
        if b"\n" in ln:
            return None
        if ln[:1] == b"\\":
            return ln[:1] + marker(i) + b"," + ln[1:]
        if ln[:1] in (b"!", b"$"):
            return b"\\" + marker(i) + b"\\" + ln
        return ln + b" " + marker(i)

    def from_family(sc, limit):
        lines = []
        for u in sc.units:
            for op in u:
                parts = op.split(" ")
                if parts[0] == "D" and parts[1] != "-":
                    pay, fill = nmea.armor(bytes.fromhex(parts[1]))
                    if len(pay) <= 400:
                        lines.append(nmea.line(payload=pay, fill=fill))
                elif parts[0] == "L" and parts[3] != "-":
                    lines.append(bytes.fromhex(parts[3]))
        if len(lines) > limit:
            lines = rnd.sample(lines, limit)
        out, cur = [], []
        for ln in lines:
            m = mark(ln, nxt())
            if m is None:
                continue
            cur.append(m)
            if len(cur) >= 400:
                out.append(assemble(cur))
                cur = []
        if cur:
            out.append(assemble(cur))
        return out
    streams += from_family(F.fam_text_small(tier), 6000 if thorough else 1500)
    streams += from_family(F.fam_capacity(tier), 2000 if thorough else 400)
    streams += from_family(F.fam_totality(tier), 20000 if thorough else 1200)
    # random mixtures
    for si in range(5000 if thorough else 220):
        L = rnd.choice([1, 2, 3, 5, 10, 30, 80] + ([400, 2000] if thorough else []))
        lines = []
        nonutf = rnd.random() < 0.4
        while len(lines) < L:
            k = rnd.random()
            if k < 0.35:
                lines.append(valid_single(nonutf and rnd.random() < 0.3))
            elif k < 0.6:
                g = group(rnd.randrange(2, 6), nonutf and rnd.random() < 0.3)
                # sometimes interleave noise into the group
                for f in g:
                    if rnd.random() < 0.25:
                        lines.append(noise(nonutf and rnd.random() < 0.5))
                    lines.append(f)
            elif k < 0.9:
                lines.append(noise(nonutf and rnd.random() < 0.5))
            else:
                lines.append(rnd.choice([b"", b"\r", b" ", b"\t"]))
        streams.append(assemble(lines, term=rnd.choice([b"\n", b"\n", b"\r\n"]), final_newline=rnd.random() < 0.8))
    # byte soup
    for si in range(300 if thorough else 20):
        n = rnd.randrange(0, 3000)
        streams.append(bytes(rnd.randrange(256) for _ in range(n)))
    return streams


def gen_twin_streams(tier):
    """C17 through the command-line tool: pairs (stream without, stream with) lines that are rejected or
    unfragmented; what is printed for every other line must be the same in both.  Returns a list of
    (bytes_without, bytes_with, set of markers of the removable lines)."""
    rnd = rng("clitwin")
    tb = T.tables()
    thorough = tier == "thorough"
    out = []
    for si in range(1500 if thorough else 120):
        ctr = [0]

        def nxt():
            ctr[0] += 1
            return ctr[0]

        def single():
            buf = F.rand_message(tb, rnd)
            pay, fill = nmea.armor(buf.bytes(), buf.n)
            return nmea.line(tag=marker(nxt()), payload=pay, fill=fill, chan=rnd.choice([b"A", b"B"]))

        def group():
            buf = F.rand_message(tb, rnd)
            pay, fill = nmea.armor(buf.bytes(), buf.n)
            n = min(rnd.randrange(2, 6), len(pay))
            cuts = F.split_points(rnd, len(pay), n)
            sid = rnd.choice([None, 1, 7])
            return [nmea.line(tag=marker(nxt()), n=n, k=k, sid=sid, payload=pay[cuts[k - 1]:cuts[k]], fill=fill if k == n else 0)
                    for k in range(1, n + 1)]

        def removable():
            k = rnd.randrange(9)
            i = nxt()
            if k == 0:
                return b"noise " + marker(i) + b" " + F.field_bytes(rnd, rnd.randrange(0, 30)).replace(b"\n", b" ")
            if k == 1:
                kw = dict(payload=F.rand_armor(rnd, rnd.randrange(1, 30)))
                return nmea.line(tag=marker(i), ck=nmea.xor(nmea.body(**kw)) ^ 0x40, **kw)
            if k == 2:      # out of sequence: no group of these streams uses id 9
                return nmea.line(tag=marker(i), n=3, k=rnd.choice([2, 3]), sid=9, payload=F.rand_armor(rnd, 5))
            if k == 3:
                return nmea.line(tag=marker(i), payload=b"0" + F.rand_armor(rnd, 10))      # unfragmented, does not decode
            if k == 4:
                return b"$GPGGA," + marker(i) + b",123519,4807.038,N"
            if k == 5:
                return b"\xff\xfe " + marker(i) + b" \xc3\x28"                           # not UTF-8
            if k == 6:
                return nmea.line(tag=marker(i), payload=b"", fill=0)
            if k == 7:
                return marker(i) + b"\r"
            if rnd.random() < 0.5:      # noise of an exact length around a buffer-size boundary
                L = rnd.choice([255, 256, 511, 512, 1023, 1024, 2047, 2048, 4095, 4096, 8191, 8192]) + rnd.choice([-1, 0, 0, 1])
                head = b"pad " + marker(i) + b" "
                return head + b"x" * max(0, L - len(head))
            return single_with(i)

        def single_with(i):
            buf = F.rand_message(tb, rnd)
            pay, fill = nmea.armor(buf.bytes(), buf.n)
            return nmea.line(tag=marker(i), payload=pay, fill=fill)

        kept, rem = [], set()
        lines = []
        L = rnd.choice([2, 3, 5, 10, 30])
        while len(lines) < L:
            r = rnd.random()
            if r < 0.5:
                g = group()
                for f in g:
                    while rnd.random() < 0.4:
                        ln = removable()
                        rem.add(int(MARK.search(ln).group(1)))
                        lines.append(ln)
                    lines.append(f)
            elif r < 0.7:
                lines.append(single())
            else:
                ln = removable()
                rem.add(int(MARK.search(ln).group(1)))
                lines.append(ln)
        term = rnd.choice([b"\n", b"\n", b"\r\n"])
        with_ = term.join(lines) + term
        without = term.join(l for l in lines if int(MARK.search(l).group(1)) not in rem)
        without += term if without else b""
        out.append((without, with_, rem))
    return out


def twin_events(pair):
    """events of both streams; every line of the longer stream that also occurs in the shorter one carries
    what was printed for it there as `twin`; the lines that were removed are labelled R: (the specification
    confirms that each of them is one that C17 allows to remove)"""
    without, with_, rem = pair
    ea = events_of(without)
    eb = events_of(with_)
    seen = {}
    for e in ea:
        if e.get("op") == "cli":
            m = MARK.search(bytes(e["b"]))
            if m:
                seen[int(m.group(1))] = e
    for e in eb:
        if e.get("op") != "cli":
            continue
        m = MARK.search(bytes(e["b"]))
        if not m:
            continue
        k = int(m.group(1))
        if k in rem:
            e["tag"] = "R:"
        elif k in seen:
            a = seen[k]
            e["twin"] = dict(out=a["out"], err=a["err"], variant=a["variant"])
            e["twinprop"] = "C17"
            e["twinmode"] = "cli"
            e["twinwhy"] = "rejected and unfragmented lines removed from the stream"
    return [(without, ea), (with_, eb)]


def run_cli_twin(prop, tier):
    return run_cli(prop, tier, twin=True)


def run_cli(prop, tier, twin=False):
    t0 = time.time()
    B.build_cli()
    wdir = ensure(os.path.join(WORK, "cli_%d" % os.getpid()))
    # one trace file per shard of streams (each stream starts with a `new` event)
    shards, cur, n = [], [], 0
    nlines = 0
    samples = []
    exits = {}
    twin_of = {}
    if twin:
        streams = []
        recorded = []
        for pair in gen_twin_streams(tier):
            for s, evs in twin_events(pair):
                streams.append(s)
                recorded.append((s, evs))
                twin_of[s] = pair
    else:
        streams = gen_streams(tier)
        recorded = ((s, events_of(s)) for s in streams)
    for s, evs in recorded:
        nlines += len(evs) - 2
        exits[evs[-1]["exit"]] = exits.get(evs[-1]["exit"], 0) + 1
        if len(samples) < 2 and 2 < len(evs) < 8:
            samples.append(dict(family="cli", stream=s.decode("latin-1")[:300]))
        cur.append((s, evs))
        n += len(evs)
        if n > 4000:
            shards.append(cur)
            cur, n = [], 0
    if cur:
        shards.append(cur)
    paths = []
    for i, sh in enumerate(shards):
        p = os.path.join(wdir, "cli%03d.ndjson" % i)
        with open(p, "w") as f:
            for s, evs in sh:
                for e in evs:
                    f.write(json.dumps(e, separators=(",", ":")) + "\n")
        paths.append(p)
    results = T.validate_shards(paths, "std", jobs=10)
    viols = []
    states = 0
    events = 0
    classes = {}
    for (sh, res) in zip(shards, results):
        states += res["states"]
        events += res["events"]
        for k, v in res["class"].items():
            classes[k] = classes.get(k, 0) + v
        flat = []
        for s, evs in sh:
            for j, e in enumerate(evs):
                flat.append((s, e))
        if res.get("generr", 0) and not res.get("viol"):
            raise ToolError("stream generator labelled a line removable that the specification does not class as rejected / unfragmented")
        for v in res.get("viol", []):
            s, e = flat[v["i"] - 1]
            ops = ["STDIN " + s.hex()]
            if s in twin_of:
                ops = ["STDIN " + twin_of[s][1].hex(), "WITHOUT " + twin_of[s][0].hex(),
                       "REMOVED " + ",".join(str(m) for m in sorted(twin_of[s][2]))]
            viols.append(dict(prop=v["prop"], all=v["all"], what=v["what"], build="cli", family="cli-twin" if twin else "cli",
                              ops=ops, event=e))
    shutil.rmtree(wdir, ignore_errors=True)
    summary = dict(name="cli-twin" if twin else "cli", build="std", streams=len(streams), input_lines=nlines, events=events,
                   exit_statuses={str(k): v for k, v in exits.items()}, classes=classes,
                   wall_s=round(time.time() - t0, 1))
    return dict(summary=summary, states=states, transitions=events, traces=len(streams), events=events,
                distinct=len({hash(s) for s in streams}), samples=samples, violations=viols, devs={})
