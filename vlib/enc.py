"""Encoding messages from the layout tables exported by the specification."""


class BitBuf:
    def __init__(self, nbits, fillbit=0, rnd=None):
        self.n = nbits
        if rnd is not None:
            self.v = rnd.getrandbits(nbits) if nbits else 0
        else:
            self.v = ((1 << nbits) - 1) if fillbit else 0

    def put(self, off, w, val):
        if w == 0:
            return
        assert off + w <= self.n, (off, w, self.n)
        val &= (1 << w) - 1
        shift = self.n - off - w
        mask = ((1 << w) - 1) << shift
        self.v = (self.v & ~mask) | (val << shift)

    def get(self, off, w):
        return (self.v >> (self.n - off - w)) & ((1 << w) - 1)

    def bytes(self):
        nb = (self.n + 7) // 8
        return (self.v << (8 * nb - self.n)).to_bytes(nb, "big") if nb else b""


def layout_key(t):
    if t in (1, 2, 3):
        return "t123"
    if t in (4, 11):
        return "t4"
    if t in (7, 13):
        return "t7"
    return "t%d" % t


def message(tables, t, nbits, values, background=0, rnd=None):
    """A message of type t, nbits long; values: {field: raw} at the ITU positions."""
    itu = tables["itu"][layout_key(t)]
    buf = BitBuf(nbits, background, rnd)
    buf.put(0, 6, t)
    for name, val in values.items():
        if isinstance(name, tuple):          # (offset, width) literal
            buf.put(name[0], name[1], val)
        else:
            off, w = itu[name]
            buf.put(off, w, val)
    return buf


def sixbit_text(s):
    """ASCII text -> list of 6-bit codes."""
    out = []
    for ch in s:
        c = ord(ch)
        out.append(c - 64 if 64 <= c < 96 else c)
    return out
