"""Specification -> implementation: the complete transition relation of the bounded parser model
(exported by TLC from AisParserMC with Export = TRUE) is replayed into the real AisParser along
EVERY path of length <= D over an alphabet of abstract lines.  The accept / reject decision and
the next abstract state come from the TLC table; a stride sample of the same paths is also
validated by the trace specification."""
import itertools, json, os, shutil, time
from .common import *
from . import build as B, tlc as T, engine as E, nmea


def export_table(cfg="Export_Parser.cfg"):
    meta = ensure(os.path.join(WORK, "exp_parser_%d" % os.getpid()))
    rc, out = run([TLCW, "-workers", "1", "-metadir", meta, "-cleanup", "-noGenerateSpecTE", "-config", cfg,
                   "MC_Parser.tla"], cwd=SPEC, timeout=600)
    shutil.rmtree(meta, ignore_errors=True)
    edges = [json.loads(s) for s in tlc_string_payload(out, "EDGE")]
    if not edges or "No error has been found" not in out:
        raise ToolError("transition table export failed:\n" + out[-3000:])
    import re
    m = re.findall(r"(\d+) states generated, (\d+) distinct states found", out)
    table = {}
    for e in edges:
        key = (json.dumps(e["from"], sort_keys=True), e["kind"], e["n"], e["k"], e["id"], e["len"])
        table[key] = e
    return table, int(m[-1][0]), int(m[-1][1])


# the walker's alphabet: (kind, n, k, id)   id -1 = absent
ALPHABET = (
    [("good", n, k, i) for (n, k) in ((2, 1), (2, 2), (3, 1), (3, 2), (3, 3)) for i in (-1, 1)]
    + [("good", 2, 1, 2), ("good", 2, 2, 2), ("good", 3, 3, 2), ("good", 3, 2, 2)]
    + [("good", 1, 1, -1), ("good", 1, 1, 1)]
    + [("good", 2, 0, 1), ("good", 2, 3, 1), ("good", 0, 1, -1), ("good", 1, 2, 1), ("good", 1, 0, 1)]   # numbering outside 1 <= k <= n
    + [("badform", 0, 0, -1), ("badck", 2, 2, 1), ("badck", 2, 1, 1)]
)
REMOVABLE = {"reject_form", "reject_checksum", "reject_seq_id", "reject_seq_no", "reject_cap", "single"}
RESULT = {"open": "incomplete", "continue": "incomplete", "single": "complete", "deliver": "complete",
          "reject_checksum": "err_checksum"}


def concrete(sym, pos):
    kind, n, k, sid = sym
    if kind == "badform":
        return b"$GPGGA,%d,garbage" % pos, b""
    pay = bytes([nmea.ARMOR[10 + pos], nmea.ARMOR[(k * 7 + (sid + 1) * 3) % 64]])
    kw = dict(n=n, k=k, sid=None if sid < 0 else sid, payload=pay, fill=(pos * 2 + k) % 6)
    if kind == "badck":
        return nmea.line(ck=nmea.xor(nmea.body(**kw)) ^ 0x21, **kw), pay
    return nmea.line(**kw), pay


FRESH = json.dumps({"id": -1, "data": [], "no": 0}, sort_keys=True)


def expected_step(table, st, buf, sym, pos):
    """one table step: returns (class, r, data, unspec, line, st', buf')"""
    kind, n, k, sid = sym
    e = table[(st, kind, n, k, sid, 0 if kind == "badform" else 1)]
    cls = e["class"]
    line, pay = concrete(sym, pos)
    unspec = kind == "good" and not (1 <= k <= n)
    data = None
    nbuf = buf
    if cls == "open":
        nbuf, data = pay, pay
    elif cls == "continue":
        nbuf, data = buf + pay, pay
    elif cls == "deliver":
        data, nbuf = buf + pay, b""
    elif cls == "single":
        data = pay
    return cls, RESULT.get(cls, "err_nmea"), data, unspec, line, json.dumps(e["to"], sort_keys=True), nbuf


def expected_path(table, path):
    """[(class, r, data or None, unspecified)] along a path, from the TLC table."""
    st = json.dumps({"id": -1, "data": [], "no": 0}, sort_keys=True)
    buf = b""
    out = []
    for pos, sym in enumerate(path):
        kind, n, k, sid = sym
        e = table[(st, kind, n, k, sid, 0 if kind == "badform" else 1)]
        cls = e["class"]
        line, pay = concrete(sym, pos)
        unspec = kind == "good" and not (1 <= k <= n)
        data = None
        if cls == "open":
            buf, data = pay, pay
        elif cls == "continue":
            buf, data = buf + pay, pay
        elif cls == "deliver":
            data, buf = buf + pay, b""
        elif cls == "single":
            data = pay
        out.append((cls, RESULT.get(cls, "err_nmea"), data, unspec, line))
        st = json.dumps(e["to"], sort_keys=True)
    return out


def walk(prop, tier, build="std", depth=None, stride=97):
    """Runs the walk twice: with decoding off, and with decoding requested (the walker's 2-character payloads
    never decode, so every completing line then returns a payload-level error - the reassembly state must
    evolve exactly as without decoding)."""
    a = _walk(prop, tier, build, depth, stride, 0)
    b = _walk(prop, tier, build, depth if depth else (3 if tier != "thorough" else 4), stride * 3, 1)
    a["summary"]["with_decoding"] = b["summary"]
    for k in ("states", "transitions", "traces", "events", "distinct"):
        a[k] += b[k]
    a["violations"] += b["violations"]
    for k, v in b["devs"].items():
        a["devs"][k] = a["devs"].get(k, 0) + v
    return a


def _walk(prop, tier, build, depth, stride, dec):
    t0 = time.time()
    table, gen, dist = export_table()
    D = depth or (4 if tier == "thorough" else 3)
    rec = B.recorder_path(build)
    wdir = ensure(os.path.join(WORK, "walk_%d_%s" % (os.getpid(), build)))
    scen = os.path.join(wdir, "walk.scen")
    trace = os.path.join(wdir, "walk.ndjson")
    paths = list(itertools.product(ALPHABET, repeat=D))
    # every path of length < D is a prefix of one of length D, so all shorter histories are covered
    with open(scen, "w") as f:
        for p in paths:
            f.write("N 0\n")
            for pos, sym in enumerate(p):
                f.write("L 0 %d %s\n" % (dec, hexs(concrete(sym, pos)[0])))
    rc, out = run([rec, scen, trace], timeout=3600)
    if rc != 0:
        raise ToolError("recorder failed on the table walk (%s): %s" % (rc, out[-500:]))
    viols = []
    nlines = 0
    classes = {}
    sample_units = []
    with open(trace, "rb") as f:
        for pi, p in enumerate(paths):
            f.readline()                      # the `new` event
            exp = []
            rejected = []
            st, buf = FRESH, b""
            dead = False
            for pos in range(D):
                raw = f.readline()
                if dead:
                    continue
                nlines += 1
                e = json.loads(raw)
                cls, r, data, unspec, line, st2, buf2 = expected_step(table, st, buf, p[pos], pos)
                exp.append((cls, r, data, unspec, line))
                rejected.append(e["r"] in ("err_nmea", "err_checksum"))
                if dec and r == "complete":
                    r, data = "err_nmea", None       # the payload cannot decode: a payload-level error
                classes[cls] = classes.get(cls, 0) + 1
                why = None
                tags = None
                if e["r"] == "panic":
                    why, tags = "panic: " + e.get("pmsg", ""), ["C01"]
                elif unspec:
                    if e["r"] != r:
                        dead = True           # unspecified numbering: not judged, stop following this path
                    st, buf = st2, buf2
                    continue
                elif e["r"] != r:
                    obs_acc = e["r"] in ("complete", "incomplete")
                    if cls in ("reject_seq_id", "reject_seq_no") and obs_acc:
                        why, tags = "out-of-sequence fragment accepted (%s)" % cls, ["C06"]
                    elif cls in ("open", "continue", "deliver") and not obs_acc:
                        why, tags = "in-sequence fragment rejected (%s)" % cls, ["C05"]
                    elif cls == "reject_checksum" or e["r"] == "err_checksum":
                        why, tags = "checksum gate: expected %s got %s" % (r, e["r"]), ["C02"]
                    elif cls == "reject_form":
                        why, tags = "ill-formed line accepted", ["C08"]
                    elif cls == "single":
                        why, tags = "unfragmented sentence: expected %s got %s" % (r, e["r"]), ["C08"]
                    else:
                        why, tags = "expected %s got %s (%s)" % (r, e["r"], cls), ["C05"]
                elif data is not None and bytes(e["s"]["data"]) != data:
                    why, tags = "payload of %s differs from the fragments of its group" % cls, ["C05", "C06"] if cls == "deliver" else ["C05"]
                if why:
                    # attribution: does the mismatch disappear when the removable lines before it are removed?
                    removable_before = [i for i in range(pos) if exp[i][0] in REMOVABLE
                                        and (not exp[i][3] or rejected[i] or exp[i][0] == "single")]
                    if removable_before and tags != ["C01"]:
                        reduced = [p[i] for i in range(pos + 1) if i not in removable_before]
                        if _single_path_ok(rec, table, reduced, wdir, dec):
                            tags = ["C17"]
                            why = "a rejected / unfragmented line left a trace: " + why
                    ops = ["N 0"] + ["L 0 %d %s" % (dec, hexs(exp[i][4])) for i in range(pos + 1)]
                    viols.append(dict(prop=tags[0], all=tags, what=why, build=build, family="tablewalk",
                                      ops=ops, event=e))
                    if cls in ("open", "continue", "deliver") and e["r"] in ("err_nmea", "err_checksum") and not (dec and cls == "deliver"):
                        pass                  # wrongly rejected: by C17 no trace; keep walking from the unchanged state
                    else:
                        dead = True
                else:
                    st, buf = st2, buf2
            if pi % stride == 0:
                sample_units.append(p)
    # a stride sample of the same paths goes through the trace specification as well
    sc = E.Scenario()
    for p in sample_units:
        sc.unit()
        sc.new(0)
        for pos, sym in enumerate(p):
            sc.line(concrete(sym, pos)[0], 0, dec)
    fr = E.run_family("tablewalk-sample", sc, build, jobs=8, known=T.open_deviations())
    viols += fr.viol
    shutil.rmtree(wdir, ignore_errors=True)
    summary = dict(name="tablewalk", build=build, depth=D, decode=dec, alphabet=len(ALPHABET), paths=len(paths),
                   lines_judged_against_table=nlines, table_edges=len(table), table_states=dist,
                   table_transitions=gen, classes=classes, tlc_validated_sample_paths=len(sample_units),
                   tlc_validated_sample_events=fr.events, sample_violations=fr.nviol,
                   wall_s=round(time.time() - t0, 1))
    return dict(summary=summary, states=dist + fr.states, transitions=gen + nlines, traces=len(paths),
                events=nlines + fr.events, distinct=len(paths),
                samples=[dict(family="tablewalk", path=[list(s) for s in paths[len(paths) // 3]])],
                violations=viols, devs=fr.devs)


def _single_path_ok(rec, table, path, wdir, dec=0):
    exp = expected_path(table, path)
    scen = os.path.join(wdir, "one.scen")
    trace = os.path.join(wdir, "one.ndjson")
    with open(scen, "w") as f:
        f.write("N 0\n")
        for pos, sym in enumerate(path):
            f.write("L 0 %d %s\n" % (dec, hexs(exp[pos][4])))
    run([rec, scen, trace], timeout=60)
    evs = [json.loads(l) for l in open(trace, "rb").read().split(b"\n") if l][1:]
    if len(evs) != len(path):
        return False
    e = evs[-1]
    cls, r, data, unspec, line = exp[-1]
    if dec and r == "complete":
        r, data = "err_nmea", None
    return e["r"] == r and (data is None or bytes(e["s"]["data"]) == data)
