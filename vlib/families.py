"""Scenario families: table-driven generators (DESIGN 4.4).  Inputs carry no expectation;
the TLA+ trace specification computes it from the bytes."""
from .common import *
from .engine import Scenario
from . import nmea, enc, corpus
from . import tlc as T

# (type, nbits, fixed raw values) for every layout branch
def shapes():
    S = []
    for t in (1, 2, 3, 4, 11, 9, 18):
        S.append((t, 168, {}))
    S.append((5, 424, {}))
    S.append((6, 88 + 64, {}))
    for t in (7, 13):
        for n in (72, 104, 136, 168):
            S.append((t, n, {}))
    S.append((8, 56 + 64, {}))
    S.append((10, 72, {}))
    S.append((12, 72 + 60, {}))
    S.append((14, 40 + 60, {}))
    for n in (88, 112, 160):
        S.append((15, n, {}))
    for n in (96, 144):
        S.append((16, n, {}))
    S.append((17, 120 + 48, {}))
    S.append((19, 312, {}))
    for n in (72, 104, 136, 160):
        S.append((20, n, {}))
    S.append((21, 272, {}))
    S.append((24, 160, {"part_number": 0}))
    S.append((24, 168, {"part_number": 0}))
    S.append((24, 168, {"part_number": 1}))
    S.append((24, 168, {"part_number": 2}))
    S.append((27, 96, {}))
    return S


def shape_fields(tb, t, nbits, fixed):
    """[(key, off, w)] of the fields present in a message of this shape."""
    itu = tb["itu"][enc.layout_key(t)]
    out = []
    if t in (7, 13):
        for i in range((nbits - 40) // 32):
            out.append((("ack%d.mmsi" % i), 40 + 32 * i, 30))
            out.append((("ack%d.seq" % i), 70 + 32 * i, 2))
        names = ["message_type", "repeat_indicator", "mmsi"]
    elif t == 20:
        for i in range(min(4, (nbits - 40) // 30)):
            o = 40 + 30 * i
            out += [("res%d.offset" % i, o, 12), ("res%d.num" % i, o + 12, 4),
                    ("res%d.timeout" % i, o + 16, 3), ("res%d.incr" % i, o + 19, 11)]
        names = ["message_type", "repeat_indicator", "mmsi"]
    elif t == 24:
        part = fixed.get("part_number", 0)
        names = ["message_type", "repeat_indicator", "mmsi", "part_number"]
        if part == 0:
            names += ["vessel_name"]
        elif part == 1:
            names += ["ship_type", "vendor_id", "unit_model_code", "serial_number", "callsign",
                      "dimension_to_bow", "dimension_to_stern", "dimension_to_port", "dimension_to_starboard"]
    else:
        names = list(itu.keys())
    for nm in names:
        off, w = itu[nm]
        if w == 0 or nm == "message_type":
            continue
        if off + w <= nbits:
            out.append((nm, off, w))
    return out


def walk_values(w, rnd, full_upto=8, nrand=8):
    if w <= full_upto:
        return list(range(1 << w))
    mx = (1 << w) - 1
    vals = {0, 1, mx, mx - 1, int("01" * w, 2) & mx, int("10" * w, 2) & mx}
    for i in range(w):
        vals.add(1 << i)
    for _ in range(nrand):
        vals.add(rnd.getrandbits(w))
    return sorted(vals)


def emit(sc, buf, via, rnd=None):
    """Sends a message (BitBuf) to the code: 'D' direct decode, 'L' armored through a sentence."""
    if via == "D":
        sc.decode(buf.bytes())
    else:
        pay, fill = nmea.armor(buf.bytes(), buf.n)
        sc.line(nmea.line(payload=pay, fill=fill), p=0, dec=1)


def rand_message(tb, rnd, t=None, shape=None):
    if shape is None:
        cands = [s for s in shapes() if t is None or s[0] == t]
        shape = rnd.choice(cands)
    t, nbits, fixed = shape
    buf = enc.BitBuf(nbits, rnd=rnd)
    buf.put(0, 6, t)
    itu = tb["itu"][enc.layout_key(t)]
    for k, v in fixed.items():
        buf.put(itu[k][0], itu[k][1], v)
    return buf


# ---------------------------------------------------------------------------
def fam_corpus(tier):
    sc = Scenario()
    sc.unit()
    sc.new(0)
    for s in corpus.SENTENCES:
        sc.line(s, 0, 1)
        sc.line(s, 0, 0)
    for pay, fill in corpus.PAYLOADS:
        sc.line(nmea.line(payload=pay, fill=fill), 0, 1)
        sc.decode(corpus.unarmor(pay, fill))
        sc.unarmor(pay, fill)
    return sc


def fam_fieldwalk(tier):
    """C04: every field of every layout branch walked over its values, three backgrounds."""
    tb = T.tables()
    rnd = rng("fieldwalk")
    sc = Scenario()
    full = 8 if tier == "thorough" else 6
    nrand = 16 if tier == "thorough" else 4
    for (t, nbits, fixed) in shapes():
        sc.unit()
        itu = tb["itu"][enc.layout_key(t)]
        flds = shape_fields(tb, t, nbits, fixed)
        for bgname in ("zero", "ones", "rand"):
            for (nm, off, w) in flds:
                if nm in fixed:
                    continue
                for val in walk_values(w, rnd, full, nrand):
                    if bgname == "rand":
                        buf = enc.BitBuf(nbits, rnd=rnd)
                    else:
                        buf = enc.BitBuf(nbits, 1 if bgname == "ones" else 0)
                    buf.put(0, 6, t)
                    for k, v in fixed.items():
                        buf.put(itu[k][0], itu[k][1], v)
                    buf.put(off, w, val)
                    emit(sc, buf, "D")
                    if bgname == "rand" and (val & 3) == 1:
                        emit(sc, buf, "L")
    return sc


def fam_random_messages(tier, n_q=3000, n_t=60000, tag="randmsg"):
    tb = T.tables()
    rnd = rng(tag)
    sc = Scenario()
    n = n_t if tier == "thorough" else n_q
    S = shapes()
    for i in range(n):
        if i % 500 == 0:
            sc.unit()
        buf = rand_message(tb, rnd, shape=S[i % len(S)])
        emit(sc, buf, "D" if i % 3 else "L")
    return sc


# ===========================================================================
# sentence layer / stateful families
# ===========================================================================
ALPHA = nmea.ARMOR
EDGE_BYTES = [0, 1, 10, 13, 32, 33, 36, 42, 44, 47, 48, 49, 57, 58, 64, 65, 86, 87, 88, 89, 92, 95, 96, 97,
              118, 119, 120, 126, 127, 128, 129, 191, 192, 254, 255]


def rand_armor(rnd, n):
    return bytes(rnd.choice(ALPHA) for _ in range(n))


def fam_armor(tier):
    """C03: unarmor over exhaustive short inputs, positional sweeps and long random strings."""
    rnd = rng("armor")
    sc = Scenario()
    thorough = tier == "thorough"
    sc.unit()
    for f in range(6):
        sc.unarmor(b"", f)
    for c in range(256):
        for f in range(6):
            sc.unarmor(bytes([c]), f)
    sc.unit()
    bg2 = b"0wUJ"
    for c in range(256):
        for d in (bg2 if not thorough else range(256)):
            if thorough and d not in bg2 and (c % 4):   # all 256 x 256 only on a quarter grid + full rows
                continue
            for f in range(6):
                sc.unarmor(bytes([c, d]), f)
                if not thorough or d in bg2:
                    sc.unarmor(bytes([d, c]), f)
    # positional sweep
    vals = range(256) if thorough else EDGE_BYTES
    for n in range(3, 14 if thorough else 10):
        sc.unit()
        for pos in range(n):
            for v in vals:
                for bg in (b"0", b"w", b"U", b"J"):
                    d = bytearray(bg * n)
                    d[pos] = v
                    fills = range(6) if (thorough or v in (48, 87, 96, 119)) else (0, 5, (pos + v) % 6)
                    for f in sorted(set(fills)):
                        sc.unarmor(bytes(d), f)
    # every length mod 4 x fill on random alphabet strings
    sc.unit()
    for n in range(0, 90 if thorough else 41):
        for f in range(6):
            sc.unarmor(rand_armor(rnd, n), f)
    # long strings, with and without one injected non-alphabet byte
    sc.unit()
    for i in range(1500 if thorough else 80):
        n = rnd.choice([50, 71, 100, 255, 256, 257, 384, 385, 511, 512, 513, 700, 1000, rnd.randrange(1, 1100)])
        d = bytearray(rand_armor(rnd, n))
        if i % 3 == 0:
            d[rnd.randrange(n)] = rnd.choice([x for x in range(256) if x not in ALPHA])
        sc.unarmor(bytes(d), rnd.randrange(6))
    # arbitrary byte strings
    for i in range(3000 if thorough else 200):
        n = rnd.randrange(0, 40)
        sc.unarmor(bytes(rnd.randrange(256) for _ in range(n)), rnd.randrange(6))
    return sc


def field_bytes(rnd, n, allow_high=True):
    """arbitrary bytes that are neither ',' nor '*' (so the sentence stays in the specified zone)"""
    out = bytearray()
    while len(out) < n:
        c = rnd.randrange(256) if allow_high else rnd.randrange(33, 127)
        if c in (44, 42):
            continue
        out.append(c)
    return bytes(out)


def base_sentences(rnd, count):
    """well-formed single sentences as (kwargs for nmea.line)"""
    out = []
    for s in corpus.PAYLOADS[:4]:
        out.append(dict(payload=s[0], fill=s[1]))
    talkers = [b"AB", b"AD", b"AI", b"AN", b"AR", b"AS", b"AT", b"AX", b"BS", b"SA"]
    while len(out) < count:
        i = len(out)
        kw = dict(addr=rnd.choice(talkers) + rnd.choice([b"VDM", b"VDO"]),
                  payload=field_bytes(rnd, rnd.randrange(1, 60)), fill=rnd.randrange(6),
                  chan=rnd.choice([b"A", b"B", b"", b"12", field_bytes(rnd, 1)]),
                  delim=rnd.choice([b"!", b"$"]))
        if i % 3 == 0:
            kw["tag"] = rnd.choice([b"s:2573345,c:1696241893*00", b"", b"g:1-2-73874", b"x!y$z*3F,"])
        if i % 4 == 1:
            kw["addr"] = field_bytes(rnd, 5)
        out.append(kw)
    return out


def fix_checksum(b):
    """recompute the checksum of a (possibly mutated) line when it still has '!'/'$' and '*'"""
    start = 0
    if b[:1] == b"\\":
        j = b.find(b"\\", 1)
        if j < 0:
            return b
        start = j + 1
    if start >= len(b) or b[start] not in (33, 36):
        return b
    st = b.find(b"*", start + 1)
    if st < 0:
        return b
    ck = nmea.xor(b[start + 1:st])
    tail = b[st + 1:]
    k = 0
    while k < len(tail) and tail[k:k + 1] in b"0123456789abcdefABCDEF" and tail[k:k + 1] != b"":
        k += 1
    return b[:st + 1] + (b"%02X" % ck) + tail[k:]


def fam_checksum(tier):
    """C02: all 256 transmitted values, every single-byte corruption, fragments inside a group."""
    rnd = rng("checksum")
    sc = Scenario()
    thorough = tier == "thorough"
    bases = base_sentences(rnd, 150 if thorough else 10)
    for bi, kw in enumerate(bases):
        sc.unit()
        sc.new(0)
        good = nmea.line(**kw)
        dec = 1 if bi < 4 else 0
        sc.line(good, 0, dec)
        cks = range(256) if (thorough or bi < 6) else sorted({rnd.randrange(256) for _ in range(40)})
        for c in cks:
            sc.line(nmea.line(ck=c, **kw), 0, dec)
        true = nmea.xor(nmea.body(**{k: v for k, v in kw.items() if k in ("addr", "n", "k", "sid", "chan", "payload", "fill")}))
        for form in ("%02x", "%03X", "%08X", "%09X", "0%02x", "%X"):
            for c in (true, true ^ 1, true ^ 0x10, true ^ 0x80, (true + 1) & 255):
                sc.line(nmea.line(ck=(form % c).encode(), **kw), 0, 0)
        # single-byte corruptions
        positions = range(len(good)) if (thorough or bi < 4) else sorted(rnd.sample(range(len(good)), min(25, len(good))))
        for pos in positions:
            for bit in range(8):
                m = bytearray(good)
                m[pos] ^= 1 << bit
                sc.line(bytes(m), 0, 0)
            for _ in range(2):
                m = bytearray(good)
                m[pos] = rnd.randrange(256)
                sc.line(bytes(m), 0, 0)
    # wrong checksums on continuation / final fragments inside an open group, then the right one
    for gi in range(400 if thorough else 30):
        sc.unit()
        sc.new(0)
        n = rnd.randrange(2, 6)
        sid = rnd.choice([None, rnd.randrange(10)])
        parts = [rand_armor(rnd, rnd.randrange(1, 30)) for _ in range(n)]
        for k in range(1, n + 1):
            kw = dict(n=n, k=k, sid=sid, payload=parts[k - 1], fill=0)
            true = nmea.xor(nmea.body(**kw))
            for bad in (true ^ 1, true ^ 0x10, true ^ 0xff, rnd.randrange(256)):
                if bad != true:
                    sc.line(nmea.line(ck=bad, **kw), 0, 0)
            sc.line(nmea.line(**kw), 0, 0)
    return sc


REPL = [44, 42, 48, 57, 54, 65, 97, 32, 13, 10, 33, 36, 92, 0, 255, 45, 43, 58, 71, 103]


def fam_grammar(tier):
    """C08: single-point mutations of valid sentences and boundary values of every field."""
    rnd = rng("grammar")
    sc = Scenario()
    thorough = tier == "thorough"
    seeds = [dict(payload=b"15M67FC000G?ufbE`FepT@3n00Sa", fill=0),
             dict(payload=b"E>kb9O9aS@7PUh", fill=4, chan=b"B", sid=3),
             dict(payload=b"15M", fill=0, chan=b"", tag=b"s:2573345,c:1696241893*00"),
             dict(payload=b"H3mr@L4NC=D62?P<7nmpl00@8220", fill=0, delim=b"$", addr=b"BSVDO")]
    if thorough:
        seeds += [dict(payload=rand_armor(rnd, rnd.randrange(1, 40)), fill=rnd.randrange(6),
                       chan=rnd.choice([b"A", b"B", b"1", b""]), sid=rnd.choice([None, 0, 9, 77, 255]))
                  for _ in range(12)]
    for kw in seeds:
        good = nmea.line(**kw)
        sc.unit()
        sc.new(0)
        sc.line(good, 0, 0)
        for pos in range(len(good)):
            muts = [good[:pos] + good[pos + 1:],                       # delete
                    good[:pos] + good[pos:pos + 1] + good[pos:]]       # duplicate
            for r in (REPL if thorough else REPL[:12]):
                muts.append(good[:pos] + bytes([r]) + good[pos + 1:])  # replace
                if thorough or pos % 3 == 0:
                    muts.append(good[:pos] + bytes([r]) + good[pos:])  # insert
            for m in muts:
                sc.line(m, 0, 0)
                fx = fix_checksum(m)
                if fx != m:
                    sc.line(fx, 0, 0)
    # whole-field mutations with a correct checksum
    sc.unit()
    sc.new(0)
    nums = [b"", b"0", b"1", b"2", b"5", b"6", b"9", b"05", b"06", b"10", b"255", b"256", b"0255", b"0256", b"00001",
            b"999", b"99999999999999999999", b"-1", b"+1", b" 1", b"1 ", b"1.0", b"0x1", b"a", b"1a"]
    pay = b"15M67FC000G?ufbE`FepT@3n00Sa"
    for v in nums:
        sc.line(nmea.line(n=v, k=b"1", payload=pay), 0, 0)
        sc.line(nmea.line(n=b"1", k=v, payload=pay), 0, 0)
        sc.line(nmea.line(n=b"1", k=b"1", sid=v, payload=pay), 0, 0)
        sc.line(nmea.line(payload=pay, fill=v), 0, 0)
    for ckform in (b"", b"7", b"07", b"007", b"0000007", b"00000007", b"000000007", b"100", b"FF", b"ff", b"fF",
                   b"0FF", b"1FF", b"G7", b"7G", b" 7", b"0x7"):
        body = nmea.body(payload=pay)
        sc.line(b"!" + body + b"*" + ckform, 0, 0)
    b0 = nmea.body(payload=pay)
    c0 = b"%02X" % nmea.xor(b0)
    extras = [b"!" + b0, b"!" + b0 + b"*", b"!" + b0 + b"*" + c0 + b"\r\n", b"!" + b0 + b"*" + c0 + b"\r",
              b"!" + b0 + b"*" + c0 + b"junk,,,*", b"!" + b0 + b"*" + c0 + b"*" + c0, b"" + b0 + b"*" + c0,
              b"x!" + b0 + b"*" + c0, b" !" + b0 + b"*" + c0, b"!!" + b0 + b"*" + c0, b"$" + b0 + b"*" + c0,
              b"#" + b0 + b"*" + c0, b"\\!" + b0 + b"*" + c0, b"\\\\!" + b0 + b"*" + c0,
              b"\\a\\\\b\\!" + b0 + b"*" + c0, b"\\abc!" + b0 + b"*" + c0, b"\\abc\\" + b0 + b"*" + c0,
              b"\\abc\\ !" + b0 + b"*" + c0, b"", b"!", b"$", b"\\", b"\\\\", b"*", b"!*00", b"!AIVDM*00",
              b"!AIVDM,1,1,,A,," + b"0*" + b"%02X" % nmea.xor(b"AIVDM,1,1,,A,,0"),
              b"!AIVDM,1,1,,A,15M*" + b"%02X" % nmea.xor(b"AIVDM,1,1,,A,15M"),
              b"!AIVDM,1,1,A,15M,0*" + b"%02X" % nmea.xor(b"AIVDM,1,1,A,15M,0"),
              b"!AIVDM,1,1,,A,15M,0,*" + b"%02X" % nmea.xor(b"AIVDM,1,1,,A,15M,0,"),
              b"!AIVDM,1,1,,A,B,15M,0*" + b"%02X" % nmea.xor(b"AIVDM,1,1,,A,B,15M,0"),
              b"!AIVD,1,1,,A,15M,0*" + b"%02X" % nmea.xor(b"AIVD,1,1,,A,15M,0"),
              b"!AIVDMX,1,1,,A,15M,0*" + b"%02X" % nmea.xor(b"AIVDMX,1,1,,A,15M,0")]
    for x in extras:
        sc.line(x, 0, 0)
    # in-order fragments with mutated headers
    for gi in range(60 if thorough else 8):
        sc.unit()
        sc.new(0)
        n = rnd.randrange(2, 5)
        for k in range(1, n + 1):
            good = nmea.line(n=n, k=k, sid=gi % 10, payload=rand_armor(rnd, 8))
            pos = rnd.randrange(len(good))
            bad = good[:pos] + bytes([rnd.choice(REPL)]) + good[pos + 1:]
            sc.line(bad, 0, 0)
            sc.line(fix_checksum(bad), 0, 0) if rnd.random() < 0.3 else None
            sc.line(good, 0, 0)
    return sc


def fam_fields(tier):
    """C07: grammar-generated accepted sentences; each goes to twin parsers with decode off and on."""
    rnd = rng("fields")
    tb = T.tables()
    sc = Scenario()
    thorough = tier == "thorough"
    talkers = [b"AB", b"AD", b"AI", b"AN", b"AR", b"AS", b"AT", b"AX", b"BS", b"SA"]
    others = [b"ab", b"AA", b"BA", b"SB", b"Ai", b"aI", b"GP", b"\x00\x00", b"\xff\xfe", b"A,", b"  "]
    reports = [b"VDM", b"VDO", b"vdm", b"VDN", b"VDX", b"MDV", b"\xff\xff\xff", b"VD "]
    sc.unit()
    sc.new(0)
    sc.new(1)
    cnt = [0]

    def both(b):
        cnt[0] += 1
        sc.line(b, 0, 0, tag="A:f%d" % cnt[0])
        sc.line(b, 1, 1)

    def valid_payload():
        buf = rand_message(tb, rnd)
        return nmea.armor(buf.bytes(), buf.n)
    for t in talkers + others:
        for r in reports:
            pay, fill = valid_payload()
            both(nmea.line(addr=t + r, payload=pay, fill=fill, chan=rnd.choice([b"A", b"B"])))
    # numbers with leading zeros, ids, channels, fill, delimiters, tag blocks
    for i in range(4000 if thorough else 400):
        pay, fill = valid_payload() if i % 2 else (field_bytes(rnd, rnd.randrange(1, 50)), rnd.randrange(6))
        sid = rnd.choice([None, 0, 1, 9, 10, 99, 100, 255, rnd.randrange(256)])
        if sid is not None and rnd.random() < 0.3:
            sid = (b"0" * rnd.randrange(1, 4)) + str(sid).encode()
        chan = rnd.choice([b"", b"A", b"B", b"1", b"2", b"AB", b"\x80", b"\xc3\xa9", b"\xff", b" ", b"\x00x", field_bytes(rnd, 1), field_bytes(rnd, 3)])
        n = rnd.choice([1, 1, 1, 2, 3, 9, 10, 99, 200, 255])
        nn = (b"0" * rnd.randrange(0, 3)) + str(n).encode()
        kw = dict(addr=rnd.choice(talkers) + rnd.choice(reports[:2]), n=nn, k=rnd.choice([b"1", b"01", b"001"]),
                  sid=sid, chan=chan, payload=pay, fill=rnd.choice([fill, b"0%d" % fill]) if isinstance(fill, int) else fill,
                  delim=rnd.choice([b"!", b"$"]),
                  tag=rnd.choice([None, None, b"c:123", b"", b"s:x,c:1*5C"]), lower=rnd.random() < 0.3,
                  tail=rnd.choice([b"", b"", b"\r", b"\r\n", b" trailing"]))
        both(nmea.line(**kw))
    # one long group: fragment numbers 1..255 (and counts up to 255)
    for big in ([255, 40] if thorough else [255]):
        sc.unit()
        sc.new(0)
        sc.new(1)
        for k in range(1, big + 1):
            both(nmea.line(n=big, k=k, sid=7, payload=rand_armor(rnd, 1), fill=0))
    return sc


def split_points(rnd, total, parts):
    if parts > total:
        parts = total
    cuts = sorted(rnd.sample(range(1, total), parts - 1)) if parts > 1 else []
    return [0] + cuts + [total]


def noise_line(rnd):
    """a line that must leave no trace: ill-formed, wrong checksum, or an unfragmented sentence"""
    k = rnd.randrange(5)
    if k == 0:
        return b"garbage " + field_bytes(rnd, rnd.randrange(0, 20))
    if k == 1:
        kw = dict(payload=rand_armor(rnd, rnd.randrange(1, 20)))
        return nmea.line(ck=nmea.xor(nmea.body(**kw)) ^ (1 << rnd.randrange(8)), **kw)
    if k == 2:
        return nmea.line(payload=rand_armor(rnd, rnd.randrange(1, 30)), fill=rnd.randrange(6), sid=rnd.choice([None, 1, 2]))
    if k == 3:
        return nmea.line(payload=corpus.PAYLOADS[rnd.randrange(len(corpus.PAYLOADS))][0])
    return nmea.line(n=2, k=1, payload=b"", fill=0)      # empty payload: ill-formed


def prior_history(sc, rnd, p, kind):
    if kind == "fresh":
        return
    if kind == "abandoned":
        n = rnd.randrange(2, 5)
        sid = rnd.choice([None, 1, 5])
        for k in range(1, rnd.randrange(2, n + 1)):
            sc.line(nmea.line(n=n, k=k, sid=sid, payload=rand_armor(rnd, 5)), p, 0)
    elif kind == "delivered":
        n = rnd.randrange(2, 4)
        sid = rnd.choice([None, 1, 5])
        for k in range(1, n + 1):
            sc.line(nmea.line(n=n, k=k, sid=sid, payload=rand_armor(rnd, 5)), p, 0)
    elif kind == "rejected":
        sc.line(noise_line(rnd), p, 0)
        sc.line(nmea.line(n=3, k=2, sid=4, payload=rand_armor(rnd, 5)), p, 0)


def fam_frag(tier):
    """C05: messages split at character boundaries into 2..9 in-order fragments, with histories and noise;
    the same payload is then sent unfragmented to a fresh parser (twin)."""
    rnd = rng("frag")
    tb = T.tables()
    sc = Scenario()
    thorough = tier == "thorough"
    msgs = [(p, f) for (p, f) in corpus.PAYLOADS]
    for s in shapes():
        buf = rand_message(tb, rnd, shape=s)
        msgs.append(nmea.armor(buf.bytes(), buf.n))
    hist = ["fresh", "abandoned", "delivered", "rejected"]
    ids = [None, 0, 1, 5, 9, 10, 99, 255, b"007", b"09"]
    gi = 0
    reps = 12 if thorough else 1
    for rep in range(reps):
        for (pay, fill) in msgs:
            if len(pay) < 2:
                continue
            gi += 1
            sc.unit()
            sc.new(0)
            sc.new(1)
            prior_history(sc, rnd, 0, hist[gi % 4])
            parts = rnd.randrange(2, min(9, len(pay)) + 1)
            cuts = split_points(rnd, len(pay), parts)
            sid = ids[gi % len(ids)]
            for k in range(1, parts + 1):
                if rnd.random() < 0.35:
                    sc.line(noise_line(rnd), 0, rnd.randrange(2))
                last = k == parts
                sc.line(nmea.line(n=parts, k=k, sid=sid, payload=pay[cuts[k - 1]:cuts[k]],
                                  fill=fill if last else rnd.choice([0, 0, 3]), chan=rnd.choice([b"A", b"B"])),
                        0, 1, tag=("B:g%d:C05:msg:fragmented-vs-unfragmented" % gi) if last else None)
            sc.line(nmea.line(payload=pay, fill=fill), 1, 1, tag="A:g%d" % gi)
    # all split points of short payloads into two and three fragments
    short = [m for m in msgs if len(m[0]) <= (40 if thorough else 16)]
    for (pay, fill) in short[: (40 if thorough else 6)]:
        sc.unit()
        sc.new(1)
        gi += 1
        sc.line(nmea.line(payload=pay, fill=fill), 1, 1, tag="A:g%d" % gi)
        for c in range(1, len(pay)):
            sc.new(0)
            sc.line(nmea.line(n=2, k=1, sid=1, payload=pay[:c]), 0, 1)
            sc.line(nmea.line(n=2, k=2, sid=1, payload=pay[c:], fill=fill), 0, 1,
                    tag="B:g%d:C05:msg:fragmented-vs-unfragmented" % gi)
    return sc
