"""Scenario families: table-driven generators (DESIGN 4.4).  Inputs carry no expectation;
the TLA+ trace specification computes it from the bytes."""
from .common import *
from .engine import Scenario
from . import nmea, enc, corpus
from . import tlc as T

# (type, nbits, fixed raw values) for every layout branch
def shapes():
    S = []
    for t in (1, 2, 3, 4, 11, 9, 18):
        S.append((t, 168, {}))
    S.append((5, 424, {}))
    S.append((6, 88 + 64, {}))
    for t in (7, 13):
        for n in (72, 104, 136, 168):
            S.append((t, n, {}))
    S.append((8, 56 + 64, {}))
    S.append((10, 72, {}))
    S.append((12, 72 + 60, {}))
    S.append((14, 40 + 60, {}))
    for n in (88, 112, 160):
        S.append((15, n, {}))
    for n in (96, 144):
        S.append((16, n, {}))
    S.append((17, 120 + 48, {}))
    S.append((19, 312, {}))
    for n in (72, 104, 136, 160):
        S.append((20, n, {}))
    S.append((21, 272, {}))
    S.append((24, 160, {"part_number": 0}))
    S.append((24, 168, {"part_number": 0}))
    S.append((24, 168, {"part_number": 1}))
    S.append((24, 168, {"part_number": 2}))
    S.append((27, 96, {}))
    return S


def shape_fields(tb, t, nbits, fixed):
    """[(key, off, w)] of the fields present in a message of this shape."""
    itu = tb["itu"][enc.layout_key(t)]
    out = []
    if t in (7, 13):
        for i in range((nbits - 40) // 32):
            out.append((("ack%d.mmsi" % i), 40 + 32 * i, 30))
            out.append((("ack%d.seq" % i), 70 + 32 * i, 2))
        names = ["message_type", "repeat_indicator", "mmsi"]
    elif t == 20:
        for i in range(min(4, (nbits - 40) // 30)):
            o = 40 + 30 * i
            out += [("res%d.offset" % i, o, 12), ("res%d.num" % i, o + 12, 4),
                    ("res%d.timeout" % i, o + 16, 3), ("res%d.incr" % i, o + 19, 11)]
        names = ["message_type", "repeat_indicator", "mmsi"]
    elif t == 24:
        part = fixed.get("part_number", 0)
        names = ["message_type", "repeat_indicator", "mmsi", "part_number"]
        if part == 0:
            names += ["vessel_name"]
        elif part == 1:
            names += ["ship_type", "vendor_id", "unit_model_code", "serial_number", "callsign",
                      "dimension_to_bow", "dimension_to_stern", "dimension_to_port", "dimension_to_starboard"]
    else:
        names = list(itu.keys())
    for nm in names:
        off, w = itu[nm]
        if w == 0 or nm == "message_type":
            continue
        if off + w <= nbits:
            out.append((nm, off, w))
    return out


def walk_values(w, rnd, full_upto=8, nrand=8):
    if w <= full_upto:
        return list(range(1 << w))
    mx = (1 << w) - 1
    vals = {0, 1, mx, mx - 1, int("01" * w, 2) & mx, int("10" * w, 2) & mx}
    for i in range(w):
        vals.add(1 << i)
    for _ in range(nrand):
        vals.add(rnd.getrandbits(w))
    return sorted(vals)


def emit(sc, buf, via, rnd=None):
    """Sends a message (BitBuf) to the code: 'D' direct decode, 'L' armored through a sentence."""
    if via == "D":
        sc.decode(buf.bytes())
    else:
        pay, fill = nmea.armor(buf.bytes(), buf.n)
        sc.line(nmea.line(payload=pay, fill=fill), p=0, dec=1)


def emit_group(sc, buf, rnd, p=0, history=True, mixed_dec=False):
    """Sends a message as an in-order fragment group, optionally after an abandoned group (a parser that is
    not fresh): the decoded message must be the same as for the unfragmented sentence."""
    pay, fill = nmea.armor(buf.bytes(), buf.n)
    if len(pay) < 2:
        sc.line(nmea.line(payload=pay, fill=fill), p, 1)
        return
    if history:
        sid0 = rnd.choice([None, 1, 3])
        n0 = rnd.randrange(2, 4)
        for k in range(1, rnd.randrange(2, n0 + 1)):
            sc.line(nmea.line(n=n0, k=k, sid=sid0, payload=bytes(rnd.choice(nmea.ARMOR) for _ in range(rnd.randrange(1, 9)))), p,
                    rnd.randrange(2) if mixed_dec else 1)
        if rnd.random() < 0.3:       # the first fragment of the abandoned group once more
            sc.line(nmea.line(n=n0, k=1, sid=sid0, payload=bytes(rnd.choice(nmea.ARMOR) for _ in range(5))), p, 1)
    parts = rnd.randrange(2, min(5, len(pay)) + 1)
    cuts = sorted(rnd.sample(range(1, len(pay)), parts - 1))
    cuts = [0] + cuts + [len(pay)]
    sid = rnd.choice([None, 1, 3, 8])
    for k in range(1, parts + 1):
        dec = 1 if (k == parts or not mixed_dec) else rnd.randrange(2)
        sc.line(nmea.line(n=parts, k=k, sid=sid, payload=pay[cuts[k - 1]:cuts[k]], fill=fill if k == parts else 0), p, dec)


def rand_message(tb, rnd, t=None, shape=None):
    if shape is None:
        cands = [s for s in shapes() if t is None or s[0] == t]
        shape = rnd.choice(cands)
    t, nbits, fixed = shape
    buf = enc.BitBuf(nbits, rnd=rnd)
    buf.put(0, 6, t)
    itu = tb["itu"][enc.layout_key(t)]
    for k, v in fixed.items():
        buf.put(itu[k][0], itu[k][1], v)
    return buf


def put_unavailable(tb, buf, t, only=None):
    """what a station without a position fix transmits: every field of type t that has a 'not available' code
    (or only those named) set to that code"""
    itu = tb["itu"][enc.layout_key(t)]
    for (tt, nm, na) in optional_fields(tb):
        if tt != t or nm not in itu or (only is not None and nm not in only):
            continue
        off, w = itu[nm]
        if off + w <= buf.n and not nm.startswith("offset"):
            buf.put(off, w, na & ((1 << w) - 1))
    return buf


# ---------------------------------------------------------------------------
def fam_corpus(tier):
    sc = Scenario()
    sc.unit()
    sc.new(0)
    for s in corpus.SENTENCES:
        sc.line(s, 0, 1)
        sc.line(s, 0, 0)
    for pay, fill in corpus.PAYLOADS:
        sc.line(nmea.line(payload=pay, fill=fill), 0, 1)
        sc.decode(corpus.unarmor(pay, fill))
        sc.unarmor(pay, fill)
    return sc


def fam_fieldwalk(tier):
    """C04: every field of every layout branch walked over its values, three backgrounds."""
    tb = T.tables()
    rnd = rng("fieldwalk")
    sc = Scenario()
    full = 8 if tier == "thorough" else 6
    nrand = 16 if tier == "thorough" else 4
    for (t, nbits, fixed) in shapes():
        sc.unit()
        itu = tb["itu"][enc.layout_key(t)]
        flds = shape_fields(tb, t, nbits, fixed)
        has_na = any(tt == t for (tt, _, _) in optional_fields(tb))
        for bgname in ("zero", "ones", "rand") + (("unavail",) if has_na else ()):
            for (nm, off, w) in flds:
                if nm in fixed:
                    continue
                for val in walk_values(w, rnd, full, nrand):
                    if bgname in ("rand", "unavail"):
                        buf = enc.BitBuf(nbits, rnd=rnd)
                    else:
                        buf = enc.BitBuf(nbits, 1 if bgname == "ones" else 0)
                    buf.put(0, 6, t)
                    for k, v in fixed.items():
                        buf.put(itu[k][0], itu[k][1], v)
                    if bgname == "unavail":
                        put_unavailable(tb, buf, t)
                    buf.put(off, w, val)
                    emit(sc, buf, "D")
                    if bgname == "rand" and (val & 3) == 1:
                        emit(sc, buf, "L")
    return sc


def fam_random_messages(tier, n_q=3000, n_t=60000, tag="randmsg"):
    tb = T.tables()
    rnd = rng(tag)
    sc = Scenario()
    n = n_t if tier == "thorough" else n_q
    S = shapes()
    for i in range(n):
        if i % 500 == 0:
            sc.unit()
        buf = rand_message(tb, rnd, shape=S[i % len(S)])
        if i % 11 == 7:
            put_unavailable(tb, buf, S[i % len(S)][0])
        elif i % 11 == 3:
            put_unavailable(tb, buf, S[i % len(S)][0], only=("longitude", "latitude"))
        emit(sc, buf, "D" if i % 3 else "L")
        if i % 9 == 4:
            emit_group(sc, buf, rnd)
    return sc


# ===========================================================================
# sentence layer / stateful families
# ===========================================================================
ALPHA = nmea.ARMOR
EDGE_BYTES = [0, 1, 10, 13, 32, 33, 36, 42, 44, 47, 48, 49, 57, 58, 64, 65, 86, 87, 88, 89, 92, 95, 96, 97,
              118, 119, 120, 126, 127, 128, 129, 191, 192, 254, 255]


def rand_armor(rnd, n):
    return bytes(rnd.choice(ALPHA) for _ in range(n))


def fam_armor(tier):
    """C03: unarmor over exhaustive short inputs, positional sweeps and long random strings."""
    rnd = rng("armor")
    sc = Scenario()
    thorough = tier == "thorough"
    sc.unit()
    for f in range(6):
        sc.unarmor(b"", f)
    for c in range(256):
        for f in range(6):
            sc.unarmor(bytes([c]), f)
    sc.unit()
    bg2 = b"0wUJ"
    for c in range(256):
        for d in (bg2 if not thorough else range(256)):
            if thorough and d not in bg2 and (c % 4):   # all 256 x 256 only on a quarter grid + full rows
                continue
            for f in range(6):
                sc.unarmor(bytes([c, d]), f)
                if not thorough or d in bg2:
                    sc.unarmor(bytes([d, c]), f)
    # positional sweep
    vals = range(256) if thorough else EDGE_BYTES
    for n in range(3, 14 if thorough else 10):
        sc.unit()
        for pos in range(n):
            for v in vals:
                for bg in (b"0", b"w", b"U", b"J"):
                    d = bytearray(bg * n)
                    d[pos] = v
                    fills = range(6) if (thorough or v in (48, 87, 96, 119)) else (0, 5, (pos + v) % 6)
                    for f in sorted(set(fills)):
                        sc.unarmor(bytes(d), f)
    # every length mod 4 x fill on random alphabet strings
    sc.unit()
    for n in range(0, 90 if thorough else 41):
        for f in range(6):
            sc.unarmor(rand_armor(rnd, n), f)
    # long strings, with and without one injected non-alphabet byte
    sc.unit()
    for i in range(1500 if thorough else 80):
        n = rnd.choice([50, 71, 100, 255, 256, 257, 384, 385, 511, 512, 513, 700, 1000, rnd.randrange(1, 1100)])
        d = bytearray(rand_armor(rnd, n))
        if i % 3 == 0:
            d[rnd.randrange(n)] = rnd.choice([x for x in range(256) if x not in ALPHA])
        sc.unarmor(bytes(d), rnd.randrange(6))
    # arbitrary byte strings
    for i in range(3000 if thorough else 200):
        n = rnd.randrange(0, 40)
        sc.unarmor(bytes(rnd.randrange(256) for _ in range(n)), rnd.randrange(6))
    # long strings with many bytes outside the alphabet (counts around 255 / 256 / 257 and beyond)
    bad = [x for x in range(256) if x not in ALPHA]
    for nbad in (2, 100, 254, 255, 256, 257, 258, 300, 511, 512, 513, 1000):
        for total in (nbad, nbad + 7, nbad + 200):
            d = bytearray(rand_armor(rnd, total))
            for pos in rnd.sample(range(total), nbad):
                d[pos] = rnd.choice(bad)
            sc.unarmor(bytes(d), rnd.randrange(6))
        sc.unarmor(bytes([rnd.choice(bad)]) * nbad, 0)
    for n in (255, 256, 257, 600, 1000, 2000):
        sc.unarmor(bytes(rnd.randrange(256) for _ in range(n)), rnd.randrange(6))
    return sc


def field_bytes(rnd, n, allow_high=True):
    """arbitrary bytes that are neither ',' nor '*' (so the sentence stays in the specified zone)"""
    out = bytearray()
    while len(out) < n:
        c = rnd.randrange(256) if allow_high else rnd.randrange(33, 127)
        if c in (44, 42):
            continue
        out.append(c)
    return bytes(out)


def base_sentences(rnd, count):
    """well-formed single sentences as (kwargs for nmea.line)"""
    out = []
    for s in corpus.PAYLOADS[:4]:
        out.append(dict(payload=s[0], fill=s[1]))
    talkers = [b"AB", b"AD", b"AI", b"AN", b"AR", b"AS", b"AT", b"AX", b"BS", b"SA"]
    while len(out) < count:
        i = len(out)
        kw = dict(addr=rnd.choice(talkers) + rnd.choice([b"VDM", b"VDO"]),
                  payload=field_bytes(rnd, rnd.randrange(1, 60)), fill=rnd.randrange(6),
                  chan=rnd.choice([b"A", b"B", b"", b"12", field_bytes(rnd, 1)]),
                  delim=rnd.choice([b"!", b"$"]))
        if i % 3 == 0:
            kw["tag"] = rnd.choice([b"s:2573345,c:1696241893*00", b"", b"g:1-2-73874", b"x!y$z*3F,"])
        if i % 4 == 1:
            kw["addr"] = field_bytes(rnd, 5)
        out.append(kw)
    return out


def fix_checksum(b):
    """recompute the checksum of a (possibly mutated) line when it still has '!'/'$' and '*'"""
    start = 0
    if b[:1] == b"\\":
        j = b.find(b"\\", 1)
        if j < 0:
            return b
        start = j + 1
    if start >= len(b) or b[start] not in (33, 36):
        return b
    st = b.find(b"*", start + 1)
    if st < 0:
        return b
    ck = nmea.xor(b[start + 1:st])
    tail = b[st + 1:]
    k = 0
    while k < len(tail) and tail[k:k + 1] in b"0123456789abcdefABCDEF" and tail[k:k + 1] != b"":
        k += 1
    return b[:st + 1] + (b"%02X" % ck) + tail[k:]


def fam_checksum(tier):
    """C02: all 256 transmitted values, every single-byte corruption, fragments inside a group."""
    rnd = rng("checksum")
    sc = Scenario()
    thorough = tier == "thorough"
    bases = base_sentences(rnd, 150 if thorough else 10)
    for bi, kw in enumerate(bases):
        sc.unit()
        sc.new(0)
        good = nmea.line(**kw)
        dec = 1 if bi < 4 else 0
        sc.line(good, 0, dec)
        cks = range(256) if (thorough or bi < 6) else sorted({rnd.randrange(256) for _ in range(40)})
        for c in cks:
            sc.line(nmea.line(ck=c, **kw), 0, dec)
        true = nmea.xor(nmea.body(**{k: v for k, v in kw.items() if k in ("addr", "n", "k", "sid", "chan", "payload", "fill")}))
        for form in ("%02x", "%03X", "%08X", "%09X", "0%02x", "%X", "1%02X", "F%02x", "10%02X", "FFFFFF%02X", "100000%02X",
                     "0000001%02X", "%02XA", "%02X0", "%02Xg", "%02X*", "%02X,"):
            for c in (true, true ^ 1, true ^ 0x10, true ^ 0x80, (true + 1) & 255):
                sc.line(nmea.line(ck=(form % c).encode(), **kw), 0, 0)
        # sentences whose XOR is a small value, with sign / blank / prefix characters in the checksum field
        for target in (0x01, 0x0A, 0x0F, 0x00, 0x10, 0x7F):
            kw2 = dict(kw)
            pay = bytearray(kw2["payload"])
            pay[-1] ^= true ^ target
            if pay[-1] in (44, 42, 10, 13):
                continue
            kw2["payload"] = bytes(pay)
            for form in ("+%X", "-%X", " %X", "+%02X", "-%02X", " %02X", "0x%02X", "0X%X", "%Xh", "%X ", "%X+", "#%02X", "$%02X", "%02X."):
                sc.line(nmea.line(ck=(form % target).encode(), **kw2), 0, 0)
        # single-byte corruptions
        positions = range(len(good)) if (thorough or bi < 4) else sorted(rnd.sample(range(len(good)), min(25, len(good))))
        for pos in positions:
            for bit in range(8):
                m = bytearray(good)
                m[pos] ^= 1 << bit
                sc.line(bytes(m), 0, 0)
            for _ in range(2):
                m = bytearray(good)
                m[pos] = rnd.randrange(256)
                sc.line(bytes(m), 0, 0)
    # every checksum value 0x00..0xFF as the XOR of a sentence (a free byte in the channel field is chosen to
    # make it so), transmitted in lower and upper case - and the same with one hex digit changed
    sc.unit()
    sc.new(0)
    for target in range(256):
        kw = dict(payload=rand_armor(rnd, rnd.randrange(1, 30)), fill=0, chan=b"")
        x = nmea.xor(nmea.body(**kw)) ^ target
        if x in (44, 42, 10, 13, 0):
            kw["chan"] = b"A"
            x = nmea.xor(nmea.body(**kw)) ^ target ^ 65
            kw["chan"] = b"A" + bytes([x]) if x not in (44, 42, 10, 13) else b"AB" + bytes([x ^ 66])
        else:
            kw["chan"] = bytes([x])
        if nmea.xor(nmea.body(**kw)) != target or 44 in kw["chan"] or 42 in kw["chan"]:
            continue
        for fmt in ("%02x", "%02X"):
            sc.line(nmea.line(ck=(fmt % target).encode(), **kw), 0, 0)
            sc.line(nmea.line(ck=(fmt % (target ^ 0x0f)).encode(), **kw), 0, 0)
            sc.line(nmea.line(ck=(fmt % (target ^ 0xf0)).encode(), **kw), 0, 0)
    # the gate does not remember: a line is checked on its own bytes whatever was presented before, with
    # whatever decode flag, in the same (reused) read buffer - same length, same transmitted value, other bytes
    for bi, kw in enumerate(base_sentences(rnd, 60 if thorough else 8)):
        good = nmea.line(**kw)
        star = good.rindex(b"*")
        for a in (0, 1):
            for b in (0, 1):
                sc.unit()
                sc.new(0)
                for rep in range(3):
                    m = bytearray(good)
                    pos = rnd.randrange(good.index(b",") + 1, star)
                    m[pos] ^= 1 << rnd.randrange(6)
                    if m[pos] in (44, 42, 10, 13) or bytes(m) == good:
                        continue
                    sc.line(good, 0, a)
                    sc.line(bytes(m), 0, b)
                    sc.line(good, 0, b)
                    sc.line(bytes(m), 0, a)
    # long lines: the whole body is covered, however long it is
    for plen in (300, 379, 380, 385, 420, 700, 1500):
        sc.unit()
        sc.new(0)
        kw = dict(payload=rand_armor(rnd, plen), fill=0)
        good = nmea.line(**kw)
        sc.line(good, 0, 0)
        body = nmea.body(**kw)
        for cutoff in (255, 256, 383, 384, 385, 512, 1024):
            if cutoff < len(body):
                sc.line(nmea.line(ck=nmea.xor(body[:cutoff]), **kw), 0, 0)       # XOR of a prefix only
        for pos in sorted({len(good) - 6, len(good) - 20, 380, 384, 385, 386, 390, 400, 513, 1025} | {rnd.randrange(len(good)) for _ in range(10)}):
            if 0 < pos < len(good) - 3:
                m = bytearray(good)
                m[pos] ^= 1 << rnd.randrange(7)
                if m[pos] not in (44, 42):
                    sc.line(bytes(m), 0, 0)
    # wrong checksums on continuation / final fragments inside an open group, then the right one
    for gi in range(400 if thorough else 30):
        sc.unit()
        sc.new(0)
        n = rnd.randrange(2, 6)
        sid = rnd.choice([None, rnd.randrange(10)])
        parts = [rand_armor(rnd, rnd.randrange(1, 30)) for _ in range(n)]
        for k in range(1, n + 1):
            kw = dict(n=n, k=k, sid=sid, payload=parts[k - 1], fill=0)
            true = nmea.xor(nmea.body(**kw))
            for bad in (true ^ 1, true ^ 0x10, true ^ 0xff, rnd.randrange(256)):
                if bad != true:
                    sc.line(nmea.line(ck=bad, **kw), 0, 0)
            sc.line(nmea.line(**kw), 0, 0)
    return sc


REPL = [44, 42, 48, 57, 54, 65, 97, 32, 13, 10, 33, 36, 92, 0, 255, 45, 43, 58, 71, 103]


def fam_grammar(tier):
    """C08: single-point mutations of valid sentences and boundary values of every field."""
    rnd = rng("grammar")
    sc = Scenario()
    thorough = tier == "thorough"
    seeds = [dict(payload=b"15M67FC000G?ufbE`FepT@3n00Sa", fill=0),
             dict(payload=b"E>kb9O9aS@7PUh", fill=4, chan=b"B", sid=3),
             dict(payload=b"15M", fill=0, chan=b"", tag=b"s:2573345,c:1696241893*00"),
             dict(payload=b"H3mr@L4NC=D62?P<7nmpl00@8220", fill=0, delim=b"$", addr=b"BSVDO")]
    if thorough:
        seeds += [dict(payload=rand_armor(rnd, rnd.randrange(1, 40)), fill=rnd.randrange(6),
                       chan=rnd.choice([b"A", b"B", b"1", b""]), sid=rnd.choice([None, 0, 9, 77, 255]))
                  for _ in range(12)]
    for kw in seeds:
        good = nmea.line(**kw)
        sc.unit()
        sc.new(0)
        sc.line(good, 0, 0)
        for pos in range(len(good)):
            muts = [good[:pos] + good[pos + 1:],                       # delete
                    good[:pos] + good[pos:pos + 1] + good[pos:]]       # duplicate
            for r in (REPL if thorough else REPL[:12]):
                muts.append(good[:pos] + bytes([r]) + good[pos + 1:])  # replace
                if thorough or pos % 3 == 0:
                    muts.append(good[:pos] + bytes([r]) + good[pos:])  # insert
            for m in muts:
                sc.line(m, 0, 0)
                fx = fix_checksum(m)
                if fx != m:
                    sc.line(fx, 0, 0)
    # the shortest and the longest well-formed sentences: one-character payload, empty channel, one-digit
    # checksum (a body whose XOR is below 16), one to eight checksum digits, every delimiter and history;
    # several tag blocks in front of the delimiter (ill-formed)
    sc.unit()
    sc.new(0)
    for c in nmea.ARMOR[::3]:
        for chan in (b"", b"A", b"1"):
            for delim in (b"!", b"$"):
                kw = dict(payload=bytes([c]), chan=chan, delim=delim, addr=rnd.choice([b"AIVDM", b"AIVDO"]))
                x = nmea.xor(nmea.body(**{k: v for k, v in kw.items() if k != "delim"}))
                sc.line(nmea.line(**kw), 0, rnd.randrange(2))
                for form in ("%X", "%x", "%03X", "%08X"):
                    sc.line(nmea.line(ck=(form % x).encode(), **kw), 0, 0)
                sc.line(nmea.line(n=2, k=1, sid=None, **kw), 0, 0)
                sc.line(nmea.line(n=2, k=2, sid=None, fill=2, **kw), 0, 0)
    good = nmea.line(payload=b"15M67FC000G?ufbE`FepT@3n00Sa")
    for pre in (b"\\a\\\\b\\", b"\\s:1*00\\\\s:1*00\\", b"\\a\\\\\\", b"\\\\\\\\", b"\\a\\x\\b\\", b"\\a\\ "):
        sc.line(pre + good, 0, 0)
    # whole-field mutations with a correct checksum
    sc.unit()
    sc.new(0)
    nums = [b"", b"0", b"1", b"2", b"5", b"6", b"9", b"05", b"06", b"10", b"255", b"256", b"0255", b"0256", b"00001",
            b"999", b"99999999999999999999", b"-1", b"+1", b" 1", b"1 ", b"1.0", b"0x1", b"a", b"1a",
            b"257", b"258", b"259", b"260", b"261", b"300", b"511", b"512", b"513", b"1000", b"1001", b"1002", b"1005", b"1255",
            b"2001", b"3001", b"10001", b"65536", b"65537", b"4294967296", b"4294967297", b"18446744073709551617", b"0000000257"]
    pay = b"15M67FC000G?ufbE`FepT@3n00Sa"
    for v in nums:
        sc.line(nmea.line(n=v, k=b"1", payload=pay), 0, 0)
        sc.line(nmea.line(n=b"1", k=v, payload=pay), 0, 0)
        sc.line(nmea.line(n=b"1", k=b"1", sid=v, payload=pay), 0, 0)
        sc.line(nmea.line(payload=pay, fill=v), 0, 0)
    # the same field values on first / middle / last fragments of a group in progress
    for v in nums:
        sc.new(0)
        sc.line(nmea.line(n=3, k=1, sid=1, payload=b"15M"), 0, 0)
        sc.line(nmea.line(n=3, k=2, sid=1, payload=b"15M", fill=v), 0, 0)
        sc.line(nmea.line(n=3, k=2, sid=v, payload=b"15M"), 0, 0)
        sc.line(nmea.line(n=v, k=2, sid=1, payload=b"15M"), 0, 0)
        sc.line(nmea.line(n=3, k=v, sid=1, payload=b"15M"), 0, 0)
        sc.line(nmea.line(n=2, k=1, sid=2, payload=b"15M", fill=v), 0, 0)
        sc.line(nmea.line(n=2, k=2, sid=2, payload=b"15M", fill=v), 0, 0)
    sc.new(0)
    # more than eight checksum digits: only the first eight are read, the rest is ignored
    for target in (0x00, 0x01, 0x0F, 0x02, 0x10, 0x7A):
        p2 = bytearray(pay)
        p2[-1] ^= nmea.xor(nmea.body(payload=pay)) ^ target
        if p2[-1] in (44, 42):
            continue
        body = nmea.body(payload=bytes(p2))
        for form in ("%08X0", "%08XF", "%08XA5", "%08X00000000", "0000000%02X", "00000000%02X", "%07X%02X", "%08x1f"):
            v = (form % ((target >> 4, target) if form.count("%") == 2 else target)).encode()
            sc.line(b"!" + body + b"*" + v, 0, 0)
    for ckform in (b"", b"7", b"07", b"007", b"0000007", b"00000007", b"000000007", b"100", b"FF", b"ff", b"fF",
                   b"0FF", b"1FF", b"G7", b"7G", b" 7", b"0x7"):
        body = nmea.body(payload=pay)
        sc.line(b"!" + body + b"*" + ckform, 0, 0)
    # checksum fields wider than a byte whose LOW byte is the right value
    body = nmea.body(payload=pay)
    x = nmea.xor(body)
    for form in ("1%02X", "F%02X", "01%02X", "100%02X", "FFFFFF%02X", "000001%02X", "%02X%02X", "0000000%02X", "00000000%02X", "1000000%02X"):
        v = (form % ((x, x) if form.count("%") == 2 else x)).encode()
        sc.line(b"!" + body + b"*" + v, 0, 0)
    b0 = nmea.body(payload=pay)
    c0 = b"%02X" % nmea.xor(b0)
    extras = [b"!" + b0, b"!" + b0 + b"*", b"!" + b0 + b"*" + c0 + b"\r\n", b"!" + b0 + b"*" + c0 + b"\r",
              b"!" + b0 + b"*" + c0 + b"junk,,,*", b"!" + b0 + b"*" + c0 + b"*" + c0, b"" + b0 + b"*" + c0,
              b"x!" + b0 + b"*" + c0, b" !" + b0 + b"*" + c0, b"!!" + b0 + b"*" + c0, b"$" + b0 + b"*" + c0,
              b"#" + b0 + b"*" + c0, b"\\!" + b0 + b"*" + c0, b"\\\\!" + b0 + b"*" + c0,
              b"\\a\\\\b\\!" + b0 + b"*" + c0, b"\\abc!" + b0 + b"*" + c0, b"\\abc\\" + b0 + b"*" + c0,
              b"\\abc\\ !" + b0 + b"*" + c0, b"", b"!", b"$", b"\\", b"\\\\", b"*", b"!*00", b"!AIVDM*00",
              b"!AIVDM,1,1,,A,," + b"0*" + b"%02X" % nmea.xor(b"AIVDM,1,1,,A,,0"),
              b"!AIVDM,1,1,,A,15M*" + b"%02X" % nmea.xor(b"AIVDM,1,1,,A,15M"),
              b"!AIVDM,1,1,A,15M,0*" + b"%02X" % nmea.xor(b"AIVDM,1,1,A,15M,0"),
              b"!AIVDM,1,1,,A,15M,0,*" + b"%02X" % nmea.xor(b"AIVDM,1,1,,A,15M,0,"),
              b"!AIVDM,1,1,,A,B,15M,0*" + b"%02X" % nmea.xor(b"AIVDM,1,1,,A,B,15M,0"),
              b"!AIVD,1,1,,A,15M,0*" + b"%02X" % nmea.xor(b"AIVD,1,1,,A,15M,0"),
              b"!AIVDMX,1,1,,A,15M,0*" + b"%02X" % nmea.xor(b"AIVDMX,1,1,,A,15M,0")]
    for x in extras:
        sc.line(x, 0, 0)
    # in-order fragments with mutated headers
    for gi in range(60 if thorough else 8):
        sc.unit()
        sc.new(0)
        n = rnd.randrange(2, 5)
        for k in range(1, n + 1):
            good = nmea.line(n=n, k=k, sid=gi % 10, payload=rand_armor(rnd, 8))
            pos = rnd.randrange(len(good))
            bad = good[:pos] + bytes([rnd.choice(REPL)]) + good[pos + 1:]
            sc.line(bad, 0, 0)
            sc.line(fix_checksum(bad), 0, 0) if rnd.random() < 0.3 else None
            sc.line(good, 0, 0)
    return sc


def fam_fields(tier):
    """C07: grammar-generated accepted sentences; each goes to twin parsers with decode off and on."""
    rnd = rng("fields")
    tb = T.tables()
    sc = Scenario()
    thorough = tier == "thorough"
    talkers = [b"AB", b"AD", b"AI", b"AN", b"AR", b"AS", b"AT", b"AX", b"BS", b"SA"]
    others = [b"ab", b"AA", b"BA", b"SB", b"Ai", b"aI", b"GP", b"\x00\x00", b"\xff\xfe", b"A,", b"  "]
    reports = [b"VDM", b"VDO", b"vdm", b"VDN", b"VDX", b"MDV", b"\xff\xff\xff", b"VD "]
    sc.unit()
    sc.new(0)
    sc.new(1)
    cnt = [0]

    def both(b):
        cnt[0] += 1
        sc.line(b, 0, 0, tag="A:f%d" % cnt[0])
        sc.line(b, 1, 1, tag="B:f%d:C07:sent:decode-on-vs-off" % cnt[0])

    def valid_payload():
        buf = rand_message(tb, rnd)
        return nmea.armor(buf.bytes(), buf.n)
    for t in talkers + others:
        for r in reports:
            pay, fill = valid_payload()
            both(nmea.line(addr=t + r, payload=pay, fill=fill, chan=rnd.choice([b"A", b"B"])))
    # numbers with leading zeros, ids, channels, fill, delimiters, tag blocks
    for i in range(4000 if thorough else 400):
        pay, fill = valid_payload() if i % 2 else (field_bytes(rnd, rnd.randrange(1, 50)), rnd.randrange(6))
        sid = rnd.choice([None, 0, 1, 9, 10, 99, 100, 255, rnd.randrange(256)])
        if sid is not None and rnd.random() < 0.3:
            sid = (b"0" * rnd.randrange(1, 4)) + str(sid).encode()
        chan = rnd.choice([b"", b"A", b"B", b"1", b"2", b"AB", b"\x80", b"\xc3\xa9", b"\xff", b" ", b"\x00x", field_bytes(rnd, 1), field_bytes(rnd, 3)])
        n = rnd.choice([1, 1, 1, 2, 3, 9, 10, 99, 200, 255])
        nn = (b"0" * rnd.randrange(0, 3)) + str(n).encode()
        kw = dict(addr=rnd.choice(talkers) + rnd.choice(reports[:2]), n=nn, k=rnd.choice([b"1", b"01", b"001"]),
                  sid=sid, chan=chan, payload=pay, fill=rnd.choice([fill, b"0%d" % fill]) if isinstance(fill, int) else fill,
                  delim=rnd.choice([b"!", b"$"]),
                  tag=rnd.choice([None, None, b"c:123", b"", b"s:x,c:1*5C"]), lower=rnd.random() < 0.3,
                  tail=rnd.choice([b"", b"", b"\r", b"\r\n", b" trailing"]))
        both(nmea.line(**kw))
    # every pair of first two address bytes (talker table), and every single-byte variation of the report type
    sc.unit()
    sc.new(0)
    pay0 = b"15M67FC000G?ufbE`FepT@3n00Sa"
    step = 1 if thorough else 1
    for a in range(0, 256, step):
        for b2 in range(256):
            if a in (42,) or b2 in (42,):
                continue
            sc.line(nmea.line(addr=bytes([a, b2]) + b"VDM", payload=pay0), 0, 0)
    for pos in range(3):
        for v in range(256):
            if v == 42:
                continue
            for basis in (b"VDM", b"VDO"):
                r = bytearray(basis)
                r[pos] = v
                sc.line(nmea.line(addr=b"AI" + bytes(r), payload=pay0), 0, 0)
    # decodable messages in fragments whose non-final fragments carry fill bits, decode off / on
    for gi in range(400 if thorough else 60):
        sc.unit()
        sc.new(0)
        sc.new(1)
        buf = rand_message(tb, rnd)
        pay, fill = nmea.armor(buf.bytes(), buf.n)
        if len(pay) < 4:
            continue
        parts = rnd.randrange(2, min(5, len(pay)) + 1)
        cuts = split_points(rnd, len(pay), parts)
        sid = rnd.choice([None, 2, 9])
        for k in range(1, parts + 1):
            both(nmea.line(n=parts, k=k, sid=sid, payload=pay[cuts[k - 1]:cuts[k]],
                           fill=fill if k == parts else rnd.choice([0, 1, 2, 3, 4, 5]), chan=rnd.choice([b"A", b"B", b""])))
    # groups after abandoned groups / deliveries / noise, with and without a sequence id
    for gi in range(300 if thorough else 40):
        sc.unit()
        sc.new(0)
        sc.new(1)
        for rep in range(3):
            sid = rnd.choice([None, None, 0, 3, 255])
            if rnd.random() < 0.6:      # an abandoned group first
                n0 = rnd.randrange(2, 5)
                for k in range(1, rnd.randrange(2, n0 + 1)):
                    both(nmea.line(n=n0, k=k, sid=rnd.choice([sid, sid, None, 1]), payload=rand_armor(rnd, rnd.randrange(1, 9))))
            n = rnd.randrange(2, 5)
            for k in range(1, n + 1):
                if rnd.random() < 0.2:
                    both(noise_line(rnd))
                both(nmea.line(n=n, k=k, sid=sid, payload=rand_armor(rnd, rnd.randrange(1, 9)), fill=rnd.randrange(6) if k == n else 0))
    # numbers just outside 0..255, on singles and inside a group
    sc.unit()
    sc.new(0)
    sc.new(1)
    for v in (b"256", b"257", b"300", b"999", b"1000", b"1001", b"1005", b"1255", b"3001", b"65537", b"4294967297"):
        both(nmea.line(n=v, k=b"1", payload=b"15M"))
        both(nmea.line(n=b"1", k=v, payload=b"15M"))
        both(nmea.line(n=b"1", k=b"1", sid=v, payload=b"15M"))
        both(nmea.line(payload=b"15M", fill=v))
        both(nmea.line(n=2, k=1, sid=5, payload=b"15M"))
        both(nmea.line(n=2, k=2, sid=v, payload=b"15M"))
        both(nmea.line(n=2, k=2, sid=5, payload=b"15M"))
    # sentences numbered outside 1 <= k <= n (what they count as is not specified; what they report is): on an
    # idle parser, after a delivery, after an abandoned group, with and without a sequence id
    odd = [(0, 1), (0, 0), (1, 0), (1, 2), (2, 3), (3, 200), (255, 255), (0, 2), (2, 0)]
    for hist in ("idle", "delivered", "abandoned"):
        for sid in (None, 4):
            sc.unit()
            sc.new(0)
            sc.new(1)
            for (n, k) in odd:
                if hist == "delivered":
                    both(nmea.line(n=2, k=1, sid=sid, payload=rand_armor(rnd, 6)))
                    both(nmea.line(n=2, k=2, sid=sid, payload=rand_armor(rnd, 6)))
                elif hist == "abandoned":
                    both(nmea.line(n=3, k=1, sid=sid, payload=rand_armor(rnd, 6)))
                    both(nmea.line(n=3, k=2, sid=sid, payload=rand_armor(rnd, 6)))
                pay, fill = valid_payload()
                both(nmea.line(n=n, k=k, sid=sid if k != 1 else rnd.choice([sid, None]), payload=pay, fill=fill))
                both(nmea.line(payload=b"15M67FC000G?ufbE`FepT@3n00Sa"))
    # one long group: fragment numbers 1..255 (and counts up to 255)
    for big in ([255, 40] if thorough else [255]):
        sc.unit()
        sc.new(0)
        sc.new(1)
        for k in range(1, big + 1):
            both(nmea.line(n=big, k=k, sid=7, payload=rand_armor(rnd, 1), fill=0))
    return sc


def split_points(rnd, total, parts):
    if parts > total:
        parts = total
    cuts = sorted(rnd.sample(range(1, total), parts - 1)) if parts > 1 else []
    return [0] + cuts + [total]


def noise_line(rnd):
    """a line that must leave no trace: ill-formed, wrong checksum, or an unfragmented sentence"""
    k = rnd.randrange(5)
    if k == 0:
        return b"garbage " + field_bytes(rnd, rnd.randrange(0, 20))
    if k == 1:
        kw = dict(payload=rand_armor(rnd, rnd.randrange(1, 20)))
        return nmea.line(ck=nmea.xor(nmea.body(**kw)) ^ (1 << rnd.randrange(8)), **kw)
    if k == 2:
        return nmea.line(payload=rand_armor(rnd, rnd.randrange(1, 30)), fill=rnd.randrange(6), sid=rnd.choice([None, 1, 2]))
    if k == 3:
        return nmea.line(payload=corpus.PAYLOADS[rnd.randrange(len(corpus.PAYLOADS))][0])
    return nmea.line(n=2, k=1, payload=b"", fill=0)      # empty payload: ill-formed


def prior_history(sc, rnd, p, kind):
    if kind == "fresh":
        return
    if kind == "abandoned":
        n = rnd.randrange(2, 5)
        sid = rnd.choice([None, 1, 5])
        for k in range(1, rnd.randrange(2, n + 1)):
            sc.line(nmea.line(n=n, k=k, sid=sid, payload=rand_armor(rnd, 5)), p, 0)
    elif kind == "delivered":
        n = rnd.randrange(2, 4)
        sid = rnd.choice([None, 1, 5])
        for k in range(1, n + 1):
            sc.line(nmea.line(n=n, k=k, sid=sid, payload=rand_armor(rnd, 5)), p, 0)
    elif kind == "rejected":
        sc.line(noise_line(rnd), p, 0)
        sc.line(nmea.line(n=3, k=2, sid=4, payload=rand_armor(rnd, 5)), p, 0)


def fam_frag(tier):
    """C05: messages split at character boundaries into 2..9 in-order fragments, with histories and noise;
    the same payload is then sent unfragmented to a fresh parser (twin)."""
    rnd = rng("frag")
    tb = T.tables()
    sc = Scenario()
    thorough = tier == "thorough"
    msgs = [(p, f) for (p, f) in corpus.PAYLOADS]
    for s in shapes():
        buf = rand_message(tb, rnd, shape=s)
        msgs.append(nmea.armor(buf.bytes(), buf.n))
    hist = ["fresh", "abandoned", "delivered", "rejected"]
    ids = [None, 0, 1, 5, 9, 10, 99, 255, b"007", b"09"]
    gi = 0
    reps = 12 if thorough else 1
    for rep in range(reps):
        for (pay, fill) in msgs:
            if len(pay) < 2:
                continue
            gi += 1
            sc.unit()
            sc.new(0)
            sc.new(1)
            prior_history(sc, rnd, 0, hist[gi % 4])
            parts = rnd.randrange(2, min(9, len(pay)) + 1)
            cuts = split_points(rnd, len(pay), parts)
            sid = ids[gi % len(ids)]
            for k in range(1, parts + 1):
                if rnd.random() < 0.35:
                    sc.line(noise_line(rnd), 0, rnd.randrange(2))
                last = k == parts
                sc.line(nmea.line(n=parts, k=k, sid=sid, payload=pay[cuts[k - 1]:cuts[k]],
                                  fill=fill if last else rnd.choice([0, 0, 3]), chan=rnd.choice([b"A", b"B"])),
                        0, 1, tag=("B:g%d:C05:msg:fragmented-vs-unfragmented" % gi) if last else None)
            sc.line(nmea.line(payload=pay, fill=fill), 1, 1, tag="A:g%d" % gi)
    # all split points of short payloads into two and three fragments
    short = [m for m in msgs if len(m[0]) <= (40 if thorough else 16)]
    for (pay, fill) in short[: (40 if thorough else 6)]:
        sc.unit()
        sc.new(1)
        gi += 1
        sc.line(nmea.line(payload=pay, fill=fill), 1, 1, tag="A:g%d" % gi)
        for c in range(1, len(pay)):
            sc.new(0)
            sc.line(nmea.line(n=2, k=1, sid=1, payload=pay[:c]), 0, 1)
            sc.line(nmea.line(n=2, k=2, sid=1, payload=pay[c:], fill=fill), 0, 1,
                    tag="B:g%d:C05:msg:fragmented-vs-unfragmented" % gi)
    return sc


# ===========================================================================
# payload layer families
# ===========================================================================
def fam_types(tier):
    """C09: all 64 type values x legal-length messages and every byte length 0..max+2."""
    tb = T.tables()
    rnd = rng("types")
    sc = Scenario()
    thorough = tier == "thorough"
    S = shapes()
    reps = 40 if thorough else 6
    for t in range(64):
        sc.unit()
        mine = [s for s in S if s[0] == t]
        for r in range(reps):
            if mine:
                for s in mine:
                    buf = rand_message(tb, rnd, shape=s)
                    emit(sc, buf, "D")
                    emit(sc, buf, "L")
            else:
                for nbits in (168, 96, 424, 72):
                    buf = enc.BitBuf(nbits, rnd=rnd)
                    buf.put(0, 6, t)
                    emit(sc, buf, "D")
                    emit(sc, buf, "L")
        mx = 60 if not thorough else 130
        for nbytes in range(0, mx):
            d = bytearray(rnd.randrange(256) for _ in range(nbytes))
            if nbytes:
                d[0] = (t << 2) | (d[0] & 3)
            sc.decode(bytes(d))
    # unarmored payloads every byte of which happens to be an armoring character
    sc.unit()
    for t in range(64):
        firsts = [b0 for b0 in nmea.ARMOR if (b0 >> 2) == t]
        for b0 in firsts:
            for nbytes in sorted({5, 9, 12, 20, 21, 34, 39, 53} | {(s[1] + 7) // 8 for s in S if s[0] == t}):
                for rep in range(3 if thorough else 1):
                    sc.decode(bytes([b0]) + rand_armor(rnd, nbytes - 1))
    # groups of different types on one parser with the decode flag differing from line to line
    for gi in range(300 if thorough else 40):
        sc.unit()
        sc.new(0)
        for rep in range(3):
            emit_group(sc, rand_message(tb, rnd), rnd, history=True, mixed_dec=True)
            # an abandoned decodable group of another type, opened with decoding on
            other = rand_message(tb, rnd)
            pay, fill = nmea.armor(other.bytes(), other.n)
            if len(pay) > 3:
                sc.line(nmea.line(n=2, k=1, sid=rnd.choice([None, 1, 3, 8]), payload=pay[:len(pay) // 2]), 0, 1)
    # the first six bits ALONE decide: the same sentence after payloads that failed to decode, after other
    # messages, and on a fresh parser
    for s in S:
        sc.unit()
        sc.new(0)
        t = s[0]
        for prev in (1, 2, 4, 8, 16, 32, 21, 42, 63, 0):
            # a sentence whose payload unarmors but does not decode (too short / unsupported type)
            sc.line(nmea.line(payload=bytes([nmea.ARMOR[prev]]) + rand_armor(rnd, rnd.choice([0, 1, 3])), fill=0), 0, 1)
            buf = rand_message(tb, rnd, shape=s)
            emit(sc, buf, "L")
            other = rand_message(tb, rnd)
            emit(sc, other, "L")
            emit(sc, buf, "L")
    return sc


COORD_FIELDS = [(t, "longitude") for t in (1, 2, 3, 4, 9, 11, 17, 18, 19, 21, 27)] + \
               [(t, "latitude") for t in (1, 2, 3, 4, 9, 11, 17, 18, 19, 21, 27)]
SCALED_FIELDS = [(1, "speed_over_ground"), (2, "course_over_ground"), (3, "speed_over_ground"),
                 (1, "course_over_ground"), (9, "speed_over_ground"), (9, "course_over_ground"),
                 (18, "speed_over_ground"), (18, "course_over_ground"), (19, "speed_over_ground"),
                 (19, "course_over_ground"), (27, "speed_over_ground"), (27, "course_over_ground"),
                 (5, "draught")]


def shape_of(t):
    for s in shapes():
        if s[0] == t and (t != 24):
            return s
    return None


def coord_values(w, sentinel, rnd, nrand):
    mx = (1 << w) - 1
    half = 1 << (w - 1)
    vals = {0, 1, mx, half, half + 1, half - 1, half - 2, mx - 1, sentinel & mx, (sentinel + 1) & mx, (sentinel - 1) & mx,
            (-sentinel) & mx}
    for i in range(w):
        for d in (-1, 0, 1):
            vals.add(((1 << i) + d) & mx)
            vals.add((-(1 << i) + d) & mx)
    # exactly +-90 / +-180 degrees at the field's resolution
    unit = 600000 if w >= 27 else 600
    for deg in (90, 180, 45, 1):
        for sgn in (1, -1):
            for d in (-1, 0, 1):
                vals.add((sgn * deg * unit + d) & mx)
    for _ in range(nrand):
        vals.add(rnd.getrandbits(w))
    vals |= cross_constants(w)
    return sorted(vals)


# every 'not available' code and saturation value of ANY field, tried on EVERY field (masked to its width):
# a sentinel test that leaks from one field / resolution into another shows up here
CONSTS = [108600000, 54600000, 108600, 54600, 1023, 1022, 3600, 3601, 511, 510, 4095, 4094, 63, 62, 60, 61, 59, 128, 127,
          181, 91, 180, 90, 360, 359, 24, 25, 31, 15, 14]


def cross_constants(w):
    mx = (1 << w) - 1
    out = set()
    for c in CONSTS:
        for d in (-1, 0, 1):
            out.add((c + d) & mx)
            out.add((-c + d) & mx)
    return out


def fam_coords(tier):
    """C10: boundary-complete coordinate values in every type carrying one; all speed/course/draught values."""
    tb = T.tables()
    rnd = rng("coords")
    sc = Scenario()
    thorough = tier == "thorough"
    sent = tb["sentinels"]
    for (t, nm) in COORD_FIELDS:
        sc.unit()
        s = shape_of(t)
        off, w = tb["itu"][enc.layout_key(t)][nm]
        na = sent[{28: "lon28", 27: "lat27", 18: "lon18", 17: "lat17"}[w]]
        for bg in ("zero", "ones", "rand"):
            for v in coord_values(w, na, rnd, 4096 if thorough else 48):
                buf = enc.BitBuf(s[1], 1 if bg == "ones" else 0) if bg != "rand" else enc.BitBuf(s[1], rnd=rnd)
                buf.put(0, 6, t)
                buf.put(off, w, v)
                emit(sc, buf, "D")
                if bg == "rand" and (v & 7) == 3:
                    emit(sc, buf, "L")
    for (t, nm) in SCALED_FIELDS:
        sc.unit()
        s = shape_of(t)
        off, w = tb["itu"][enc.layout_key(t)][nm]
        for v in range(1 << w):
            if not thorough and w > 10 and (v % 3) and v not in (3600, 3599, 3601, 4095, 4094):
                continue
            buf = enc.BitBuf(s[1], rnd=rnd)
            buf.put(0, 6, t)
            buf.put(off, w, v)
            emit(sc, buf, "D")
    return sc


# (type, field, sentinel raw value)
def optional_fields(tb):
    sent = tb["sentinels"]
    out = []
    for t in (1, 2, 3, 4, 9, 11, 18, 19, 21):
        out += [(t, "longitude", sent["lon28"]), (t, "latitude", sent["lat27"])]
    for t in (17, 27):
        out += [(t, "longitude", sent["lon18"]), (t, "latitude", sent["lat17"])]
    for t in (1, 2, 3, 9, 18, 19):
        out += [(t, "speed_over_ground", 1023), (t, "course_over_ground", 3600)]
    out += [(27, "speed_over_ground", 63), (27, "course_over_ground", 511)]
    for t in (1, 2, 3, 18, 19):
        out += [(t, "true_heading", 511)]
    for t in (1, 2, 3):
        out += [(t, "rate_of_turn", 128)]
    out += [(9, "altitude", 4095)]
    for t in (4, 11):
        out += [(t, "year", 0), (t, "month", 0), (t, "day", 0), (t, "minute", 60), (t, "second", 60), (t, "hour", 24)]
    out += [(5, "eta_month_utc", 0), (5, "eta_day_utc", 0), (5, "eta_minute_utc", 60), (5, "eta_hour_utc", 24)]
    out += [(15, "offset1_1", 0), (15, "offset1_2", 0), (15, "offset2_1", 0)]
    return out


def fam_sentinel(tier):
    """C11: every optional numeric field: the sentinel, its neighbours, extremes, out-of-range values."""
    tb = T.tables()
    rnd = rng("sentinel")
    sc = Scenario()
    thorough = tier == "thorough"
    for (t, nm, na) in optional_fields(tb):
        sc.unit()
        off, w = tb["itu"][enc.layout_key(t)][nm]
        mx = (1 << w) - 1
        if w <= 12:
            vals = list(range(1 << w)) if (thorough or w <= 10) else \
                sorted(set(list(range(0, 1 << w, 5)) + [na, na - 1, na + 1, mx, mx - 1, 0, 1]) & set(range(1 << w)))
        else:
            vals = sorted({na & mx, (na - 1) & mx, (na + 1) & mx, 0, 1, mx, mx - 1, 1 << (w - 1), (1 << (w - 1)) - 1,
                           (-na) & mx, (na >> 1) & mx, (na << 1) & mx, (na + (1 << (w - 1))) & mx}
                          | {rnd.getrandbits(w) for _ in range(256 if thorough else 64)}
                          | ({(54600000 + d) & mx for d in (-600000, -1, 0, 1)} if w == 27 else set())
                          | ({(90 * 600000 + d) & mx for d in (0, 1, 599999)} if w == 27 else set()))
        vals = sorted(set(vals) | cross_constants(w))
        forms = [f15 for f15 in (88, 112, 160) if off + w <= f15] if t == 15 else [shape_of(t)[1]]
        for nbits in forms:
            for v in vals:
                if t == 15 and nbits != 160 and v % 7 and v not in (0, 1, 4095):
                    continue
                buf = enc.BitBuf(nbits, rnd=rnd)
                buf.put(0, 6, t)
                buf.put(off, w, v)
                emit(sc, buf, "D")
                if v in (na, na + 1):
                    emit(sc, buf, "L")
    sc.unit()
    for r in range(256):
        sc.rot(r)
    return sc


ENUM_FIELDS = [(1, "navigation_status"), (2, "navigation_status"), (3, "navigation_status"), (27, "navigation_status"),
               (1, "maneuver_indicator"), (2, "maneuver_indicator"), (3, "maneuver_indicator"),
               (4, "epfd_type"), (5, "epfd_type"), (11, "epfd_type"), (19, "epfd_type"), (21, "epfd_type"),
               (5, "ship_type"), (19, "type_of_ship_and_cargo"), (24, "ship_type"), (21, "aid_type"),
               (5, "dte"), (9, "dte"), (19, "dte"), (9, "assigned_mode"), (18, "assigned_mode"), (19, "assigned_mode"),
               (18, "cs_unit"), (24, "part_number"),
               (1, "position_accuracy"), (2, "position_accuracy"), (3, "position_accuracy"), (4, "fix_quality"),
               (11, "fix_quality"), (9, "position_accuracy"), (18, "position_accuracy"), (19, "position_accuracy"),
               (21, "accuracy"), (27, "position_accuracy"),
               (1, "raim"), (18, "has_display"), (18, "has_dsc"), (18, "whole_band"), (18, "accepts_message_22"),
               (21, "off_position"), (21, "virtual_aid"), (21, "assigned_mode"), (27, "gnss_position_status"),
               (6, "retransmit"), (12, "retransmit")]
SYNC_TYPES = (1, 2, 3, 4, 9, 11, 18)


def fam_enums(tier):
    """C12: every code of every enumerated field in every type that carries it (exhaustive)."""
    tb = T.tables()
    rnd = rng("enums")
    sc = Scenario()
    for (t, nm) in ENUM_FIELDS:
        sc.unit()
        off, w = tb["itu"][enc.layout_key(t)][nm]
        if t == 24:
            base = (24, 168, {"part_number": 1})
        else:
            base = shape_of(t)
        for bg in ("zero", "ones", "rand", "unavail", "nopos"):
            for v in range(1 << w):
                buf = enc.BitBuf(base[1], 1 if bg == "ones" else 0) if bg in ("zero", "ones") else enc.BitBuf(base[1], rnd=rnd)
                buf.put(0, 6, t)
                if t == 24 and nm != "part_number":
                    buf.put(38, 2, 1)
                if bg == "unavail":
                    put_unavailable(tb, buf, t)
                elif bg == "nopos":
                    put_unavailable(tb, buf, t, only=("longitude", "latitude"))
                buf.put(off, w, v)
                emit(sc, buf, "D")
                if bg == "rand" and v % 4 == 0:
                    emit(sc, buf, "L")
    sc.unit()
    for t in SYNC_TYPES:
        for sel in (0, 1):
            for v in range(4):
                for rep in range(3):
                    buf = enc.BitBuf(168, rnd=rnd)
                    buf.put(0, 6, t)
                    buf.put(148, 1, sel)
                    buf.put(149, 2, v)
                    emit(sc, buf, "D")
    sc.unit()
    for c in range(256):
        sc.ship(c)
    return sc


TEXT_FIELDS = [(5, 70, 7), (5, 112, 20), (5, 302, 20), (19, 143, 20), (21, 43, 20),
               ("24A", 40, 20), ("24B", 48, 3), ("24B", 66, 4), ("24B", 90, 7), (12, 72, None), (14, 40, None)]


def text_base(tb, rnd, t, nchars=None):
    if t == "24A":
        buf = enc.BitBuf(168, rnd=rnd); buf.put(0, 6, 24); buf.put(38, 2, 0)
    elif t == "24B":
        buf = enc.BitBuf(168, rnd=rnd); buf.put(0, 6, 24); buf.put(38, 2, 1)
    elif t == 12:
        buf = enc.BitBuf(72 + 6 * nchars, rnd=rnd); buf.put(0, 6, 12)
    elif t == 14:
        buf = enc.BitBuf(40 + 6 * nchars, rnd=rnd); buf.put(0, 6, 14)
    else:
        buf = enc.BitBuf(shape_of(t)[1], rnd=rnd); buf.put(0, 6, t)
    return buf


def fam_decode_history(tier, only_types=None):
    """The decoder has no memory: a message decodes the same after any number of messages that were rejected
    part-way (truncated inside a field) or decoded, as on first use."""
    tb = T.tables()
    rnd = rng("dechist")
    sc = Scenario()
    thorough = tier == "thorough"
    for s in shapes():
        if only_types and s[0] not in only_types:
            continue
        sc.unit()
        good = rand_message(tb, rnd, shape=s)
        if s[0] in (5, 19, 21, 24, 12, 14):       # give the text fields visible characters
            itu = tb["itu"][enc.layout_key(s[0])]
            for nm in ("vessel_name", "name", "callsign", "destination", "vendor_id", "text"):
                if nm in itu and itu[nm][0] + 6 <= s[1]:
                    o, w = itu[nm]
                    nch = (w or (s[1] - o)) // 6
                    for i in range(min(nch, (s[1] - o) // 6)):
                        good.put(o + 6 * i, 6, rnd.randrange(1, 27))
        emit(sc, good, "D")
        full = good.bytes()
        cuts = range(1, len(full)) if thorough else sorted(set(rnd.sample(range(1, len(full)), min(12, len(full) - 1))))
        for cut in cuts:
            other = rand_message(tb, rnd, shape=rnd.choice([x for x in shapes() if x[0] == s[0]])).bytes()
            sc.decode(other[:cut])          # rejected somewhere inside
            emit(sc, good, "D")             # must decode exactly as before
        emit(sc, good, "L")
        pay, fill = nmea.armor(full, good.n)
        for cut in (len(pay) // 3, len(pay) // 2, len(pay) - 2):
            if cut > 0:
                sc.line(nmea.line(payload=pay[:cut], fill=0), 0, 1)
                emit(sc, good, "L")
        # ... nor does the sentence path: a payload that stops being armored data part-way (all bits set up to
        # there) leaves nothing behind for the next sentence - the same message, an all-zero one, and one whose
        # optional fields all carry their 'not available' codes
        itu = tb["itu"][enc.layout_key(s[0])]
        zero = enc.BitBuf(s[1], 0)
        zero.put(0, 6, s[0])
        for k, v in s[2].items():
            zero.put(itu[k][0], itu[k][1], v)
        una = put_unavailable(tb, rand_message(tb, rnd, shape=s), s[0])
        for badpos in sorted({1, len(pay) // 2, len(pay) - 1}):
            if badpos <= 0:
                continue
            bad = bytearray(b"w" * len(pay))
            bad[0] = pay[0]
            bad[badpos] = rnd.choice(b"XY_xz~ ")
            for fi, follow in enumerate((good, zero, una)):
                key = "dh%d-%d-%d-%d" % (s[0], s[1], badpos, fi) + "".join("%s%d" % (k[:2], v) for k, v in s[2].items())
                fpay, ffill = nmea.armor(follow.bytes(), follow.n)
                sc.decode(corpus.unarmor(fpay, ffill), tag="A:" + key)
                sc.line(nmea.line(payload=bytes(bad), fill=0), 0, 1)
                sc.line(nmea.line(payload=fpay, fill=ffill), 0, 1,
                        tag="B:%s:C03:msgeq:sentence-path-vs-direct-decode-of-the-unarmored-payload" % key)
                # ... nor after a well-armored sentence of a type that is not decoded
                sc.line(nmea.line(payload=b"F" + b"w" * (len(pay) - 1), fill=0), 0, 1)
                sc.line(nmea.line(payload=fpay, fill=ffill), 0, 1,
                        tag="B:%s:C03:msgeq:sentence-path-vs-direct-decode-of-the-unarmored-payload" % key)
        # ... and the decode flag of earlier calls does not matter: two messages of this shape presented with
        # decoding on, off, on in every order
        other = rand_message(tb, rnd, shape=s)
        pay2, fill2 = nmea.armor(other.bytes(), other.n)
        la, lb = nmea.line(payload=pay, fill=fill), nmea.line(payload=pay2, fill=fill2, chan=b"B")
        for seq in (((la, 1), (lb, 0), (lb, 1)), ((lb, 1), (la, 0), (la, 1), (lb, 1)), ((la, 0), (la, 1), (lb, 0), (lb, 1), (la, 1))):
            for ln, dec in seq:
                sc.line(ln, 0, dec)
    return sc


def fam_text(tier):
    """C13: each of the 64 characters at each position; padding patterns at both ends; all-padding;
    interior '@' and spaces; maximal lengths; every field's own alignment."""
    tb = T.tables()
    rnd = rng("text")
    sc = Scenario()
    thorough = tier == "thorough"
    PAD = [0, 32, 1, 63]       # '@' ' ' 'A' '?'
    for (t, off, n) in TEXT_FIELDS:
        sc.unit()
        lens = [n] if n else ([1, 2, 5, 19, 20, 21, 60, 156] if thorough else [1, 3, 20, 21, 156])
        for nch in lens:
            if t == 14 and nch == 156:
                nch = 161
            def put_text(codes):
                buf = text_base(tb, rnd, t, nch)
                for i, c in enumerate(codes):
                    buf.put(off + 6 * i, 6, c)
                emit(sc, buf, "D")
                return buf
            fill_codes = [rnd.randrange(1, 32) for _ in range(nch)]
            # each character at each position (others letters)
            positions = range(nch) if (thorough or nch <= 7) else sorted({0, 1, nch // 2, nch - 2, nch - 1})
            for pos in positions:
                for c in range(64):
                    codes = list(fill_codes)
                    codes[pos] = c
                    put_text(codes)
            # all patterns over PAD on the first three and last four positions
            import itertools
            head = min(3, nch)
            tail = min(4, nch - head)
            for hp in itertools.product(PAD, repeat=head):
                for tp in (itertools.product(PAD, repeat=tail) if tail else [()]):
                    if not thorough and rnd.random() < 0.6 and nch > 7:
                        continue
                    codes = list(fill_codes)
                    codes[:head] = hp
                    if tail:
                        codes[nch - tail:] = tp
                    put_text(codes)
            for allc in (0, 32, 1, 63, 31, 33):
                put_text([allc] * nch)
            if t == 21:
                # a full 20-character name followed by a name extension (272 + 6..84 bits): the name is its own 120 bits
                for ext in (1, 2, 5, 14):
                    for rep in range(6 if thorough else 2):
                        nb = 272 + 6 * ext
                        nb = (nb + 7) // 8 * 8
                        buf = enc.BitBuf(nb, rnd=rnd)
                        buf.put(0, 6, 21)
                        for i in range(20):
                            buf.put(off + 6 * i, 6, rnd.randrange(1, 27))
                        for i in range((nb - 272) // 6):
                            buf.put(272 + 6 * i, 6, rnd.randrange(1, 27))
                        emit(sc, buf, "D")
                        emit(sc, buf, "L")
            for _ in range(40 if thorough else 8):
                codes = [rnd.choice([0, 32, 32, 0, rnd.randrange(64)]) for _ in range(nch)]
                b2 = put_text(codes)
                emit(sc, b2, "L")
    return sc


def fam_varlen(tier):
    """C14: for every supported type every byte length 0..max legal + 8, random / all-ones / all-zero contents;
    armored character counts x fill around each legal length."""
    tb = T.tables()
    rnd = rng("varlen")
    sc = Scenario()
    thorough = tier == "thorough"
    sup = tb["supported"]
    twin = [0]
    for t in sup:
        sc.unit()
        legal = tb["legalbytes"][str(t)] if isinstance(tb["legalbytes"], dict) else tb["legalbytes"][t]
        mx = min(max(legal), 60 if not thorough else 140) + 8
        if t in (6, 8, 12, 14, 17) and not thorough:
            mx = 40
        for nbytes in range(0, mx + 1):
            kinds = ["zero", "ones"] + ["rand"] * (8 if thorough else 3)
            for kind in kinds:
                if kind == "rand":
                    d = bytearray(rnd.randrange(256) for _ in range(nbytes))
                else:
                    d = bytearray([255 if kind == "ones" else 0] * nbytes)
                if nbytes:
                    d[0] = (t << 2) | (d[0] & 3)
                if t == 24 and nbytes >= 5:
                    part = rnd.choice([0, 0, 1, 1, 2, 3])
                    d[4] = (d[4] & 0xfc) | part
                sc.decode(bytes(d))
        # through the sentence layer: character counts x fill around the legal lengths
        Ls = tb["lengths"][str(t)] if isinstance(tb["lengths"], dict) else tb["lengths"][t]
        for L in sorted(Ls)[: (8 if not thorough else 40)]:
            nch = (L + 5) // 6
            for dn in (-2, -1, 0, 1, 2):
                if nch + dn < 1:
                    continue
                for fill in range(6):
                    pay = bytearray(rand_armor(rnd, nch + dn))
                    pay[0] = nmea.ARMOR[t]
                    if fill and len(pay) > 1:
                        # the same payload with the fill bits zero and with the fill bits set: padding is read as zero
                        twin[0] += 1
                        v = nmea.ARMOR.index(pay[-1])
                        z = bytearray(pay)
                        z[-1] = nmea.ARMOR[(v >> fill) << fill]
                        o = bytearray(pay)
                        o[-1] = nmea.ARMOR[v | ((1 << fill) - 1)]
                        sc.line(nmea.line(payload=bytes(z), fill=fill), 0, 1, tag="A:v%d" % twin[0])
                        sc.line(nmea.line(payload=bytes(o), fill=fill), 0, 1,
                                tag="B:v%d:C14:msgonly:fill-bits-are-padding" % twin[0])
                    else:
                        sc.line(nmea.line(payload=bytes(pay), fill=fill), 0, 1)
    return sc


def fam_binary(tier):
    """C15: types 6, 8, 17 with every payload length and three content patterns; header walks."""
    tb = T.tables()
    rnd = rng("binary")
    sc = Scenario()
    thorough = tier == "thorough"
    for (t, hdr, maxbits) in ((6, 88, 920), (8, 56, 952), (17, 120, 696)):
        sc.unit()
        step = 1 if thorough else 1
        for nb in range(0, maxbits // 8 + 5, step):
            for kind in ("inc", "ff", "rand"):
                total = hdr // 8 + nb
                d = bytearray(rnd.randrange(256) for _ in range(hdr // 8))
                if kind == "inc":
                    d += bytes((i + 1) & 255 for i in range(nb))
                elif kind == "ff":
                    d += b"\xff" * nb
                else:
                    d += bytes(rnd.randrange(256) for _ in range(nb))
                d[0] = (t << 2) | (d[0] & 3)
                sc.decode(bytes(d))
                if kind == "rand" and nb % 3 == 0 and len(d) * 8 // 6 < 380:
                    for fill in ((0, 2, 4) if nb % 2 else (0,)):
                        pay, f0 = nmea.armor(bytes(d))
                        sc.line(nmea.line(payload=pay, fill=f0), 0, 1)
        # header fields
        itu = tb["itu"][enc.layout_key(t)]
        for nm, (off, w) in itu.items():
            if w == 0 or nm == "message_type":
                continue
            for v in walk_values(w, rnd, 6, 6):
                buf = enc.BitBuf(hdr + 64, rnd=rnd)
                buf.put(0, 6, t)
                buf.put(off, w, v)
                emit(sc, buf, "D")
    # binary messages arriving as fragment groups (the realistic case: they rarely fit one sentence), on a parser
    # that has seen abandoned groups (with / without a sequence id), deliveries and noise before
    for gi in range(600 if thorough else 60):
        sc.unit()
        sc.new(0)
        t, hdr, maxbits = ((6, 88, 920), (8, 56, 952), (17, 120, 696))[gi % 3]
        for rep in range(2):
            prior_history(sc, rnd, 0, ["fresh", "abandoned", "delivered", "rejected"][(gi + rep) % 4])
            if gi % 2:
                sc.line(nmea.line(n=3, k=1, sid=None, payload=rand_armor(rnd, 7)), 0, 1)      # id-less group, never finished
            nb = rnd.randrange(0, maxbits // 8 + 1)
            d = bytearray(rnd.randrange(256) for _ in range(hdr // 8 + nb))
            d[0] = (t << 2) | (d[0] & 3)
            pay, fill = nmea.armor(bytes(d))
            parts = max(2, min(9, (len(pay) + 59) // 60))
            if len(pay) < parts:
                continue
            cuts = split_points(rnd, len(pay), parts)
            sid = rnd.choice([None, 1, 4, 9])
            for k in range(1, parts + 1):
                sc.line(nmea.line(n=parts, k=k, sid=sid, payload=pay[cuts[k - 1]:cuts[k]], fill=fill if k == parts else 0), 0, 1)
    # repetitive application data split so that a fragment equals the characters just before it
    for (t, hdr) in ((6, 88), (8, 56), (17, 120)):
        for fillbyte in (0xFF, 0x00, 0xAA):
            for nb in (30, 90):
                sc.unit()
                sc.new(0)
                d = bytearray(rnd.randrange(256) for _ in range(hdr // 8)) + bytes([fillbyte]) * nb
                d[0] = (t << 2) | (d[0] & 3)
                pay, fill = nmea.armor(bytes(d))
                for cutset in ([len(pay) - 1], [len(pay) - 3, len(pay) - 2], [len(pay) // 2, len(pay) // 2 + 4, len(pay) // 2 + 8],
                               [hdr // 6 + 3, hdr // 6 + 4, hdr // 6 + 5, hdr // 6 + 6]):
                    cuts = [0] + cutset + [len(pay)]
                    parts = len(cuts) - 1
                    for k in range(1, parts + 1):
                        sc.line(nmea.line(n=parts, k=k, sid=2, payload=pay[cuts[k - 1]:cuts[k]], fill=fill if k == parts else 0), 0, 1)
    for i in range(20000 if thorough else 300):
        if i % 500 == 0:
            sc.unit()
        t, hdr, maxbits = rnd.choice(((6, 88, 920), (8, 56, 952), (17, 120, 696)))
        nb = rnd.randrange(0, maxbits // 8 + 1)
        d = bytearray(rnd.randrange(256) for _ in range(hdr // 8 + nb))
        d[0] = (t << 2) | (d[0] & 3)
        sc.decode(bytes(d))
    # payloads that do not end on a byte: every character count modulo 4 with every fill count, the last
    # transmitted bits set (the returned bytes are the transmitted bits, padded with zeros)
    sc.unit()
    sc.new(0)
    for (t, hdr) in ((6, 88), (8, 56), (17, 120)):
        base = (hdr + 5) // 6
        for extra in range(1, 14):
            for fill in range(6):
                for tailc in (b"w", b"0", None):
                    pay = bytearray(rand_armor(rnd, base + extra))
                    pay[0] = nmea.ARMOR[t]
                    if tailc:
                        pay[-1] = tailc[0]
                        pay[-2] = tailc[0]
                    sc.line(nmea.line(payload=bytes(pay), fill=fill), 0, 1)
    # a rejected line inside the group (another group's last fragment, a wrong number, noise) costs no byte
    for gi in range(200 if thorough else 24):
        sc.unit()
        sc.new(0)
        t, hdr, maxbits = ((6, 88, 920), (8, 56, 952), (17, 120, 696))[gi % 3]
        nb = rnd.randrange(4, 60)
        d = bytearray(rnd.randrange(256) for _ in range(hdr // 8 + nb))
        d[0] = (t << 2) | (d[0] & 3)
        pay, fill = nmea.armor(bytes(d))
        parts = rnd.randrange(2, 5)
        cuts = split_points(rnd, len(pay), parts)
        sid = rnd.choice([None, 1, 4])
        for k in range(1, parts + 1):
            if k > 1:
                kind = (gi + k) % 4
                if kind == 0:
                    sc.line(nmea.line(n=2, k=2, sid=7, payload=rand_armor(rnd, 6)), 0, 1)            # another group's last fragment
                elif kind == 1:
                    sc.line(nmea.line(n=parts, k=parts if k != parts else parts + 1, sid=sid, payload=rand_armor(rnd, 6)), 0, 1) if k != parts else sc.line(noise_line(rnd), 0, 1)
                elif kind == 2:
                    sc.line(noise_line(rnd), 0, 1)
            sc.line(nmea.line(n=parts, k=k, sid=sid, payload=pay[cuts[k - 1]:cuts[k]], fill=fill if k == parts else 0), 0, 1)
    return sc


def fam_radio(tier):
    """C16: communication state of the seven types: all time-outs x sync states x sub-message values,
    ITDMA fields, both selector values, the preceding bit toggled."""
    tb = T.tables()
    rnd = rng("radio")
    sc = Scenario()
    thorough = tier == "thorough"
    subvals = sorted({0, 1, 2, 0x3fff, 0x3ffe, 0x2aaa, 0x1555, 0x2000, 0x1fff, 23 << 9, 24 << 9, 59 << 2, 60 << 2,
                      (23 << 9) | (59 << 2), (31 << 9) | (127 << 2), (12 << 9) | (30 << 2) | 3, 64 << 2, 100 << 2,
                      (5 << 9) | (1 << 8) | (14 << 2)} | {rnd.getrandbits(14) for _ in range(40 if thorough else 10)})
    for t in SYNC_TYPES:
        sc.unit()
        for sel in ((0, 1) if t in (9, 18) else (rnd.randrange(2),)):
            for pre in (0, 1):
                # one message whose communication state alone is varied: whether it decodes at all must not
                # depend on the state (twin, mode `kind`)
                base = enc.BitBuf(168, rnd=rnd)
                base.put(0, 6, t)
                base.put(147, 1, pre)
                base.put(148, 1, sel if t in (9, 18) else pre)
                base.put(149, 19, 0)
                key = "r%d-%d-%d" % (t, sel, pre)
                if t in (9, 18):        # the reference carries the other selector value: the selector is part of the state
                    base.put(148, 1, 1 - sel)
                sc.decode(base.bytes(), tag="A:" + key)
                base.put(148, 1, sel if t in (9, 18) else pre)
                for sync in range(4):
                    for to in range(8):
                        for sv in subvals:
                            buf = enc.BitBuf(168, rnd=rnd)
                            buf.put(0, 6, t)
                            buf.put(147, 1, pre)
                            buf.put(148, 1, sel if t in (9, 18) else pre)
                            buf.put(149, 2, sync)
                            buf.put(151, 3, to)
                            buf.put(154, 14, sv)
                            emit(sc, buf, "D")
                            base.put(149, 2, sync)
                            base.put(151, 3, to)
                            base.put(154, 14, sv)
                            sc.decode(base.bytes(), tag="B:%s:C16:kind:only-the-communication-state-differs" % key)
        for _ in range(4000 if thorough else 300):
            buf = enc.BitBuf(168, rnd=rnd)
            buf.put(0, 6, t)
            emit(sc, buf, "D" if rnd.random() < 0.8 else "L")
    return sc


def fam_radio_exhaustive(tier):
    """C16 thorough: all 2^19 states (2^20 with the selector for 9 and 18) of each type."""
    rnd = rng("radiox")
    sc = Scenario()
    for t in SYNC_TYPES:
        bits = 20 if t in (9, 18) else 19
        stride = 1 if t in (1, 3, 4, 9, 18) else 8
        base = enc.BitBuf(168, rnd=rnd)
        base.put(0, 6, t)
        for v in range(0, 1 << bits, stride):
            if v % 4096 == 0:
                sc.unit()
                base.put(168 - bits, bits, 0)
                if bits == 20 and v < (1 << 19):        # reference with the other selector value
                    base.put(148, 1, 1)
                key = "x%d-%d" % (t, v // 4096)
                sc.decode(base.bytes(), tag="A:" + key)
            base.put(168 - bits, bits, v)
            sc.decode(base.bytes(), tag="B:%s:C16:kind:only-the-communication-state-differs" % key)
    return sc


def fam_mtype(tier):
    """C19: all 64 armoring characters (and the non-alphabet bytes) as first payload character x sentence shapes."""
    rnd = rng("mtype")
    sc = Scenario()
    tb = T.tables()
    sc.unit()
    sc.new(0)
    firsts = list(nmea.ARMOR) + [c for c in range(256) if c not in nmea.ARMOR and c not in (44, 42)]
    for c in firsts:
        t = nmea.ARMOR.index(c) if c in nmea.ARMOR else None
        for dec in (0, 1):
            rest = rand_armor(rnd, 27)
            if t is not None and shape_of(t):
                buf = rand_message(tb, rnd, shape=shape_of(t))
                pay, fill = nmea.armor(buf.bytes(), buf.n)
            else:
                pay, fill = bytes([c]) + rest, 0
            sc.line(nmea.line(payload=pay, fill=fill), 0, dec)
            sc.line(nmea.line(payload=pay, fill=fill, delim=b"$", tag=b"c:1"), 0, dec)
            sc.line(nmea.line(payload=bytes([c]), fill=0), 0, dec)
            # first fragment, later fragment
            sc.line(nmea.line(n=2, k=1, sid=3, payload=bytes([c]) + rest), 0, dec)
            sc.line(nmea.line(n=2, k=2, sid=3, payload=bytes([c]) + rest[:5]), 0, dec)
            # short payloads with every fill count
            for fill in range(6):
                sc.line(nmea.line(payload=bytes([c]), fill=fill), 0, dec)
                sc.line(nmea.line(payload=bytes([c]) + rest[:1], fill=fill, chan=b"B"), 0, dec)
                sc.line(nmea.line(n=2, k=1, sid=fill, payload=bytes([c]), fill=fill), 0, dec)
    # every address: the type does not depend on talker or formatter
    sc.unit()
    sc.new(0)
    for addr in (b"AIVDO", b"BSVDM", b"ABVDM", b"SAVDO", b"AIVDX", b"AIVSD", b"BSVSD", b"GPGGA", b"aivdm", b"\xff\xfeVDM", b"AI\x00\x00\x00", b"XXXXX"):
        for c in list(nmea.ARMOR):
            for dec in (0, 1):
                sc.line(nmea.line(addr=addr, payload=bytes([c]) + rand_armor(rnd, 15)), 0, dec)
            sc.line(nmea.line(addr=addr, n=2, k=1, sid=1, payload=bytes([c]) + rand_armor(rnd, 5)), 0, 0)
    # payloads that do not decode (too short, unsupported type), decoding requested
    sc.unit()
    sc.new(0)
    for c in list(nmea.ARMOR):
        for ln_ in (1, 2, 7):
            sc.line(nmea.line(payload=bytes([c]) + rand_armor(rnd, ln_ - 1)), 0, 1)
            sc.line(nmea.line(n=2, k=1, sid=6, payload=b"0"), 0, 1)
            sc.line(nmea.line(n=2, k=2, sid=6, payload=bytes([c]) + rand_armor(rnd, ln_ - 1)), 0, 1)
    # history: the sentence's own first character decides, whatever group is open or was delivered before
    for c in list(nmea.ARMOR):
        sc.unit()
        sc.new(0)
        other = nmea.ARMOR[(nmea.ARMOR.index(c) * 7 + 5) % 64]
        rest = rand_armor(rnd, 9)
        for dec in (0, 1):
            sc.line(nmea.line(n=3, k=1, sid=1, payload=bytes([other]) + rest), 0, dec)        # a group stays open
            sc.line(nmea.line(payload=bytes([c]) + rest), 0, dec)                               # unfragmented meanwhile
            sc.line(nmea.line(n=3, k=2, sid=1, payload=bytes([c]) + rest[:3]), 0, dec)          # continuation
            sc.line(nmea.line(n=3, k=3, sid=1, payload=bytes([c]) + rest[:2]), 0, dec)          # delivery
            sc.line(nmea.line(payload=bytes([c]) + rest), 0, dec)                               # after the delivery
            sc.line(nmea.line(n=2, k=1, sid=2, payload=bytes([other]) + rest), 0, dec)        # abandoned group
            sc.line(nmea.line(n=2, k=1, sid=4, payload=bytes([c]) + rest), 0, dec)
            sc.line(nmea.line(n=2, k=2, sid=4, payload=bytes([other]) + rest[:4]), 0, dec)
    return sc


# ===========================================================================
# history families: C06 random streams, C17 twin streams
# ===========================================================================
def random_stream(rnd, length, ids, maxn=9, valid_only=True):
    """A stream of sentences built from in-order groups, then perturbed by loss, duplication,
    reordering, interleaving and id reuse.  Returns a list of kwargs for nmea.line."""
    lines = []
    while len(lines) < length:
        n = rnd.choice([1, 2, 2, 3, 3, 4, 5, maxn])
        sid = rnd.choice(ids)
        grp = [dict(n=n, k=k, sid=sid, payload=rand_armor(rnd, rnd.randrange(1, 12)),
                    fill=rnd.randrange(6) if (k == n or rnd.random() < 0.3) else 0) for k in range(1, n + 1)]
        mode = rnd.randrange(10)
        if mode == 0 and n > 1:                      # loss
            del grp[rnd.randrange(n)]
        elif mode == 1 and n > 1:                    # duplication
            i = rnd.randrange(n)
            grp.insert(i, dict(grp[i]))
        elif mode == 2 and n > 2:                    # reordering
            i = rnd.randrange(n - 1)
            grp[i], grp[i + 1] = grp[i + 1], grp[i]
        elif mode == 3 and n > 1:                    # id mismatch in the middle
            i = rnd.randrange(1, n)
            grp[i] = dict(grp[i], sid=rnd.choice([x for x in ids if x != sid] or [sid]))
        elif mode == 4 and n > 1:                    # orphan tail only
            grp = grp[rnd.randrange(1, n):]
        elif mode == 5 and n > 1:                    # interleave with another group
            n2 = rnd.randrange(2, 4)
            sid2 = rnd.choice(ids)
            g2 = [dict(n=n2, k=k, sid=sid2, payload=rand_armor(rnd, 3), fill=0) for k in range(1, n2 + 1)]
            merged = []
            while grp or g2:
                src = grp if (grp and (not g2 or rnd.random() < 0.5)) else g2
                merged.append(src.pop(0))
            grp = merged
        elif mode == 6 and n > 1:                    # stale fragment after the delivery
            grp.append(dict(n=n + 1, k=n + 1, sid=sid, payload=rand_armor(rnd, 4), fill=0))
        elif mode == 8 and n > 1 and sid is not None:   # a header that equals the next fragment's modulo 256
            i = rnd.randrange(1, n)
            which = rnd.randrange(3)
            g = dict(grp[i])
            if which == 0:
                g["sid"] = str(sid + 256).encode()
            elif which == 1:
                g["k"] = str(g["k"] + 256).encode()
            else:
                g["n"] = str(g["n"] + 256).encode()
            grp.insert(i, g)
        elif mode == 7 and not valid_only:           # numbering outside 1 <= k <= n
            grp.append(dict(n=rnd.choice([0, 1, 2]), k=rnd.choice([0, 3, 200]), sid=sid, payload=rand_armor(rnd, 4), fill=0))
        lines += grp
    return lines[:length]


def fam_seq(tier):
    """C06: long random streams of validly numbered sentences over several ids and group sizes."""
    rnd = rng("seq")
    sc = Scenario()
    thorough = tier == "thorough"
    for si in range(2000 if thorough else 120):
        sc.unit()
        sc.new(0)
        ids = rnd.choice([[None, 1, 2], [0, 1, 2, 3, 4, 5, 6, 7, 8, 9], [None], [7], list(range(250, 256)), [None, 0, 255, 10],
                          [rnd.randrange(256) for _ in range(3)], [None, 0], [rnd.randrange(10, 250), None]])
        L = rnd.choice([50, 80, 120, 500]) if thorough else rnd.choice([30, 50, 80])
        decmode = si % 3          # 0: never decode, 1: always (payloads rarely decode: error path), 2: random
        for kw in random_stream(rnd, L, ids, maxn=rnd.choice([3, 5, 9])):
            dec = 0 if decmode == 0 else 1 if decmode == 1 else rnd.randrange(2)
            sc.line(nmea.line(**kw), 0, dec)
    return sc


def fam_twin(tier):
    """C17: stream A = a random stream with removable lines (ill-formed, wrong checksum, out of sequence,
    unfragmented) inserted; stream B = A without them.  Both go to two parser instances interleaved in one
    process; the observations of the common lines must be identical (judged by the trace specification)."""
    rnd = rng("twin")
    sc = Scenario()
    thorough = tier == "thorough"
    key = 0
    for si in range(40000 // 20 if thorough else 150):
        sc.unit()
        sc.new(0)
        sc.new(1)
        ids = rnd.choice([[None, 1, 2], [0, 1, 2, 3], [5]])
        # every third unit carries decodable messages and is parsed with decoding requested throughout
        decoded = si % 4 == 1
        cdec = 1 if decoded else 0
        # the common lines: complete in-order groups (never removable, always in sequence)
        common = []
        for g in range(rnd.randrange(2, 7)):
            n = rnd.randrange(2, 6)
            sid = rnd.choice(ids)
            if decoded:
                buf = rand_message(T.tables(), rnd)
                mpay, mfill = nmea.armor(buf.bytes(), buf.n)
                n = min(n, len(mpay))
                cuts = split_points(rnd, len(mpay), n)
                common += [dict(n=n, k=k, sid=sid, payload=mpay[cuts[k - 1]:cuts[k]], fill=mfill if k == n else 0)
                           for k in range(1, n + 1)]
            else:
                common += [dict(n=n, k=k, sid=sid, payload=rand_armor(rnd, rnd.randrange(1, 10)), fill=0)
                           for k in range(1, n + 1)]
        pending_b = []
        for kw in common:
            # removable lines before this common line (stream A only)
            for _ in range(rnd.choice([0, 0, 1, 1, 2, 3])):
                kind = rnd.randrange(8 if decoded else 6)
                if kind >= 6:       # unfragmented, checksum right, payload stops being armored data part-way
                    ln = nmea.line(payload=b"w" * rnd.randrange(1, 40) + rnd.choice([b"X", b"_", b"~", b" "]) + rand_armor(rnd, rnd.randrange(0, 5)))
                elif kind == 0:
                    ln = noise_line(rnd)
                elif kind == 1:     # out of sequence: a fragment that does not continue the open group
                    ln = nmea.line(n=kw["n"], k=kw["k"] + rnd.choice([1, 2]), sid=kw["sid"], payload=rand_armor(rnd, 3))
                elif kind == 2:     # wrong id for the open group
                    other = rnd.choice([x for x in [None, 1, 2, 3, 9] if x != kw["sid"]])
                    ln = nmea.line(n=kw["n"], k=max(2, kw["k"]), sid=other, payload=rand_armor(rnd, 3))
                elif kind == 3:     # an exact duplicate of the previous fragment of this group (k-1) is out of sequence too
                    if kw["k"] >= 3:
                        ln = nmea.line(n=kw["n"], k=kw["k"] - 2, sid=kw["sid"], payload=rand_armor(rnd, 3)) if kw["k"] - 2 >= 2 else noise_line(rnd)
                    else:
                        ln = noise_line(rnd)
                elif kind == 4:     # unfragmented sentence, decodable or not
                    ln = nmea.line(payload=rnd.choice(corpus.PAYLOADS)[0], sid=kw["sid"])
                    if rnd.random() < 0.4:   # fragment number 0: rejected whatever the state (must leave no trace either)
                        ln = nmea.line(n=rnd.choice([kw["n"], 1, 3]), k=0, sid=rnd.choice([kw["sid"], None, 7]), payload=rand_armor(rnd, 4))
                    elif rnd.random() < 0.3:  # one sentence, odd number: unfragmented whatever its number says
                        ln = nmea.line(n=1, k=rnd.choice([2, 3, kw["k"], kw["k"] + 1, 255]), sid=rnd.choice([kw["sid"], None]), payload=rand_armor(rnd, 6))
                else:
                    ln = nmea.line(payload=rand_armor(rnd, rnd.randrange(1, 20)), fill=rnd.randrange(6))
                sc.line(ln, 0, 1 if decoded else rnd.randrange(2), tag="R:")
            key += 1
            b = nmea.line(**kw)
            sc.line(b, 0, cdec, tag="A:t%d" % key)
            pending_b.append((b, key))
            # stream B is fed with a lag, interleaved with A in the same process
            while pending_b and rnd.random() < 0.6:
                bb, kk = pending_b.pop(0)
                sc.line(bb, 1, cdec, tag="B:t%d:C17:full:removal-of-rejected-or-unfragmented-lines" % kk)
        for bb, kk in pending_b:
            sc.line(bb, 1, cdec, tag="B:t%d:C17:full:removal-of-rejected-or-unfragmented-lines" % kk)
    return sc


# ===========================================================================
# C18: capacity boundaries of the no-allocator build (also run on std / alloc)
# ===========================================================================
def fam_capacity(tier):
    rnd = rng("capacity")
    tb = T.tables()
    sc = Scenario()
    thorough = tier == "thorough"
    # per-sentence payload capacity
    sc.unit()
    sc.new(0)
    for n in (1, 100, 255, 256, 383, 384, 385, 386, 500, 512, 513, 1000):
        for dec in (0, 1):
            pay = bytearray(rand_armor(rnd, n))
            pay[0] = nmea.ARMOR[8]            # type 8: any length decodes (std) / binary capacity (none)
            sc.line(nmea.line(payload=bytes(pay)), 0, dec)
            sc.line(nmea.line(n=2, k=1, sid=1, payload=bytes(pay)), 0, dec)
    # reassembly capacity: groups summing to 383 / 384 / 385 / 700 in 2..9 fragments, followed by more
    for total in (100, 383, 384, 385, 386, 500, 700, 768, 1200):
        for parts in ((2, 3, 4, 9) if not thorough else (2, 3, 4, 5, 6, 7, 8, 9)):
            for rep in range(3 if thorough else 1):
                sc.unit()
                sc.new(0)
                cuts = split_points(rnd, total, parts)
                if max(cuts[i + 1] - cuts[i] for i in range(parts)) > 384:
                    cuts = [total * i // parts for i in range(parts)] + [total]
                sid = rnd.choice([None, 3, 7])
                pay = bytearray(rand_armor(rnd, total))
                pay[0] = nmea.ARMOR[rnd.choice([8, 6, 14, 12, 1])]
                for k in range(1, parts + 1):
                    sc.line(nmea.line(n=parts, k=k, sid=sid, payload=bytes(pay[cuts[k - 1]:cuts[k]])), 0, 1)
                # what follows an overflow must not be contaminated
                sc.line(nmea.line(n=parts + 1, k=parts + 1, sid=sid, payload=rand_armor(rnd, 5)), 0, 0)
                sc.line(nmea.line(n=2, k=2, sid=sid, payload=rand_armor(rnd, 5)), 0, 0)
                sc.line(nmea.line(n=2, k=1, sid=sid, payload=rand_armor(rnd, 5)), 0, 0)
                sc.line(nmea.line(n=2, k=2, sid=sid, payload=rand_armor(rnd, 5)), 0, 0)
    # the classic: 300 + 100 + 10
    sc.unit()
    sc.new(0)
    for k, ln in ((1, 300), (2, 100), (3, 10)):
        sc.line(nmea.line(n=3, k=k, sid=7, payload=rand_armor(rnd, ln)), 0, 0)
    # binary data 118 / 119 / 120 bytes in types 6, 8, 17
    sc.unit()
    sc.new(0)
    for (t, hdr) in ((6, 11), (8, 7), (17, 15)):
        for nb in (0, 1, 117, 118, 119, 120, 121, 200):
            d = bytearray(rnd.randrange(256) for _ in range(hdr + nb))
            d[0] = (t << 2) | (d[0] & 3)
            sc.decode(bytes(d))
            pay, fill = nmea.armor(bytes(d))
            if len(pay) <= 384:
                sc.line(nmea.line(payload=pay, fill=fill), 0, 1)
    # safety texts of 19 / 20 / 21 / 156 characters
    for (t, first) in ((12, 72), (14, 40)):
        for nch in (1, 19, 20, 21, 22, 40, 156, 161):
            buf = enc.BitBuf(first + 6 * nch, rnd=rnd)
            buf.put(0, 6, t)
            emit(sc, buf, "D")
            emit(sc, buf, "L")
    # lists of 4 entries plus trailing bits
    for t in (7, 13, 20):
        for nbytes in (21, 22, 25, 30):
            d = bytearray(rnd.randrange(256) for _ in range(nbytes))
            d[0] = (t << 2) | (d[0] & 3)
            sc.decode(bytes(d))
    return sc


# ===========================================================================
# C01: totality
# ===========================================================================
POOL = [b"", b"0", b"1", b"2", b"3", b"9", b"255", b"256", b"00", b"01", b"999999999999", b"-1", b"A"]


def fam_totality(tier):
    rnd = rng("totality")
    tb = T.tables()
    sc = Scenario()
    thorough = tier == "thorough"
    # history x input product: every reachable kind of parser state x a fuzz set of lines
    histories = [[], [dict(n=3, k=1, sid=1)], [dict(n=3, k=1, sid=1), dict(n=3, k=2, sid=1)],
                 [dict(n=2, k=1, sid=None), dict(n=2, k=2, sid=None)], [dict(n=255, k=1, sid=255)],
                 [dict(n=9, k=1, sid=0)] + [dict(n=9, k=k, sid=0) for k in range(2, 9)],
                 [dict(n=2, k=1, sid=5, payload=rand_armor(rnd, 384))]]
    fuzz = []
    for n in POOL:
        for k in POOL:
            for sid in (b"", b"1", b"5", b"255", b"256"):
                fuzz.append(nmea.line(n=n, k=k, sid=sid, payload=rnd.choice([b"1", b"15M67FC000G?ufbE`FepT@3n00Sa", b"\xff", b"z{"]),
                                      fill=rnd.choice([0, 5, b"6", b""])))
    for plen in (0, 1, 384, 385, 2000):
        for inj in (False, True):
            pay = bytearray(rand_armor(rnd, plen))
            if inj and plen:
                pay[rnd.randrange(plen)] = rnd.choice([0, 255, 88, 120, 32])
            for (n, k) in ((1, 1), (2, 1), (2, 2), (3, 2)):
                fuzz.append(nmea.line(n=n, k=k, sid=1, payload=bytes(pay), fill=rnd.randrange(6)))
    for _ in range(4000 if thorough else 150):
        fuzz.append(bytes(rnd.randrange(256) for _ in range(rnd.randrange(0, 120))))
    for _ in range(3000 if thorough else 100):     # NMEA-like prefix then garbage
        base = nmea.line(payload=rand_armor(rnd, rnd.randrange(1, 40)))
        cut = rnd.randrange(len(base))
        fuzz.append(base[:cut] + bytes(rnd.randrange(256) for _ in range(rnd.randrange(0, 20))))
    if not thorough:
        rnd.shuffle(fuzz)
        fuzz = fuzz[:700]
    for h in histories:
        for chunk in range(0, len(fuzz), 60):
            sc.unit()
            for f in fuzz[chunk:chunk + 60]:
                sc.new(0)
                for kw in h:
                    kw = dict(kw)
                    kw.setdefault("payload", b"15M")
                    sc.line(nmea.line(**kw), 0, 0)
                sc.line(f, 0, rnd.randrange(2))
                sc.line(f, 0, 1)
    # the longest group the sentence grammar allows: fragments 1..255 of 255 (one-character payloads)
    for dec in (0, 1):
        sc.unit()
        sc.new(0)
        for k in range(1, 256):
            sc.line(nmea.line(n=255, k=k, sid=7, payload=b"0", fill=0), 0, dec)
        sc.line(nmea.line(n=255, k=255, sid=7, payload=b"0"), 0, dec)
    # unarmor: every length x fill on random alphabet strings, plus random bytes
    sc.unit()
    step = 1 if thorough else 7
    for n in list(range(0, 40)) + list(range(40, 1101, step)):
        for f in (range(6) if (thorough or n < 40) else (n % 6,)):
            sc.unarmor(rand_armor(rnd, n), f)
    for _ in range(20000 if thorough else 300):
        sc.unarmor(bytes(rnd.randrange(256) for _ in range(rnd.randrange(0, 30))), rnd.randrange(6))
    # decode: 64 types x random bytes of every length; every byte truncation of one valid message per type
    for t in range(64):
        sc.unit()
        for nb in range(0, 131 if thorough else 70):
            for rep in range(3 if thorough else 1):
                d = bytearray(rnd.randrange(256) for _ in range(nb))
                if nb:
                    d[0] = (t << 2) | (d[0] & 3)
                sc.decode(bytes(d))
        for s in shapes():
            if s[0] != t:
                continue
            full = rand_message(tb, rnd, shape=s).bytes()
            for cut in range(len(full) + 1):
                sc.decode(full[:cut])
            for kind in (b"\x00", b"\xff"):
                d = bytearray(kind * (len(full) + 3))
                d[0] = (t << 2) | (d[0] & 3)
                sc.decode(bytes(d))
    sc.unit()
    for r in range(256):
        sc.rot(r)
        sc.ship(r)
    return sc



def fam_text_small(tier):
    """Text trimming on every text field with padding that mixes '@' and blanks at both ends (compact: meant to be
    run on all three builds, which have separate trimming code paths)."""
    import itertools
    tb = T.tables()
    rnd = rng("textsmall")
    sc = Scenario()
    PAD = [0, 32, 1]       # '@' ' ' 'A'
    for (t, off, n) in TEXT_FIELDS:
        sc.unit()
        for nch in ([n] if n else [1, 6, 20]):
            head = min(2, nch)
            tail = min(3, nch - head)
            for hp in itertools.product(PAD, repeat=head):
                for tp in (itertools.product(PAD, repeat=tail) if tail else [()]):
                    codes = [rnd.randrange(1, 27) for _ in range(nch)]
                    if nch > 6:
                        codes[rnd.randrange(2, nch - 3)] = rnd.choice([0, 32])
                    codes[:head] = hp
                    if tail:
                        codes[nch - tail:] = tp
                    buf = text_base(tb, rnd, t, nch)
                    for i, c in enumerate(codes):
                        buf.put(off + 6 * i, 6, c)
                    emit(sc, buf, "D")
            for allc in (0, 32):
                buf = text_base(tb, rnd, t, nch)
                for i in range(nch):
                    buf.put(off + 6 * i, 6, allc)
                emit(sc, buf, "D")
                emit(sc, buf, "L")
            # fields made of padding only: a run of blanks then '@'s, '@'s then blanks, with one letter in between
            for a in range(nch + 1):
                for codes in ([32] * a + [0] * (nch - a), [0] * a + [32] * (nch - a),
                              ([32] * a + [1] + [0] * (nch - a - 1)) if a < nch else None,
                              ([0] * a + [1] + [32] * (nch - a - 1)) if a < nch else None):
                    if codes is None:
                        continue
                    buf = text_base(tb, rnd, t, nch)
                    for i, c in enumerate(codes):
                        buf.put(off + 6 * i, 6, c)
                    emit(sc, buf, "D")
    return sc



# ===========================================================================
# the common core: a compact mixture of every kind of scenario, run by EVERY property's check (on the std and the
# no-allocator build).  Whatever it turns up is charged by the attribution rules, so it adds no alarms for
# properties that hold - but it gives each check a look at situations its own families do not construct
# (histories in front of decodes, fragment groups around every message type, capacity edges, noise ...).
# ===========================================================================
def fam_core(tier):
    thorough = tier == "thorough"
    sc = Scenario()
    parts = [fam_random_messages(tier, n_q=900, n_t=6000, tag="core-randmsg"),
             fam_decode_history(tier),
             fam_capacity(tier),
             fam_text_small(tier)]
    for part in parts:
        sc.units += part.units
    # unarmor at the lengths where buffers and capacities change
    rnd = rng("core-armor")
    sc.unit()
    for n in (0, 1, 2, 3, 4, 5, 7, 100, 127, 128, 129, 130, 255, 256, 257, 384, 385, 511, 512, 513, 514, 700, 1000):
        for fill in (0, 1, 5) if n > 5 else range(6):
            sc.unarmor(rand_armor(rnd, n), fill)
            sc.unarmor(b"w" * n, fill)
    # a slice of the history families
    for gen, every in ((fam_seq, 3), (fam_twin, 3), (fam_frag, 2)):
        part = gen(tier)
        sc.units += [u for i, u in enumerate(part.units) if i % every == 0]
    return sc
