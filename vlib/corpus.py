"""Every sentence and payload in the repository's tests and README (the corpus)."""

SENTENCES = [
    b"!AIVDM,1,1,,,34RvgN500005tLTMfjiTs3u`0>`<,0*7A",
    b"!AIVDM,1,1,,A,403OtVAv6s5l1o?I``E`4I?02<34,0*21",
    b"!AIVDM,1,1,,A,E>kb9I99S@0`8@:9ah;0,TahI7@@;V4=v:nv;h00003vP100,0*8D",
    b"!AIVDM,1,1,,A,E>kb9I99S@0`8@:9ah;0TahI7@@;V4=v:nv;h00003vP100,0*7A",
    b"!AIVDM,1,1,,A,E>kb9I99S@0`8@:9ah;0TahI7@@;V4=v:nv;h00003vP100,0*8D",
    b"!AIVDM,1,1,,A,ENkb9H2`:@17W4b0h@@@@@@@@@@;WSEi:lK9800003vP000,0*08",
    b"!AIVDM,1,1,,B,403OtVAv6s5lOo?I`pE`4KO02<34,0*3E",
    b"!AIVDM,1,1,,B,E>kb9O9aS@7PUh10dh19@;0Tah2cWrfP:l?M`00003vP100,0*01",
    b"!AIVDM,1,1,,B,ENkb9U79PW@80Q67h10dh1T6@Hq;`0W8:peOH00003vP000,0*1C",
    b"!AIVDM,2,1,1,B,53`soB8000010KSOW<0P4eDp4l6000000000000U0p<24t@P05H3S833CDP00000,0*78",
    b"!AIVDM,2,2,1,B,0000000,2*26",
    b"\\s:2573345,c:1696241893*00\\!AIVDM,1,1,,A,E>kb9I99S@0`8@:9ah;0TahI7@@;V4=v:nv;h00003vP100,0*7A",
    b"s:2573345,c:1696241893*00\\!AIVDM,1,1,,A,E>kb9I99S@0`8@:9ah;0TahI7@@;V4=v:nv;h00003vP100,0*7A",
]

# (armored payload, fill bits)
PAYLOADS = [
    (b"13u?etPv2;0n:dDPwUM1U1Cb069D", 0), (b"16SteH0P00Jt63hHaa6SagvJ087r", 0),
    (b"33nQ:B50000FiEBRjpcK19qSR>`<", 0), (b"38Id705000rRVJhE7cl9n;160000", 0),
    (b"403OtVAv7=i?;o?IaHE`4Iw020S:", 0), (b"403OviQuMGCqWrRO9>E6fE700@GO", 0),
    (b"4h2E:qT47wk?0<tSF0l4Q@000d;@", 0),
    (b"5341U9`00000uCGCKL0u=@T4000000000000001?<@<47u;b004Sm51DQ0C@", 0),
    (b"53`soB8000010KSOW<0P4eDp4l6000000000000U0p<24t@P05H3S833CDP000000000000", 2),
    (b"6>jR0600V:C0>da4P106P00", 2), (b"6B?n;be:cbapalgc;i6?Ow4", 2),
    (b"702R5`hwCjq8", 0), (b"702R5`hwCt40", 0),
    (b"8@2<HW@0BkdhF0dcH5R`Q@kDJjD;WwfRwwwwwwwwwwwwwwwwwwwwwwwwwt0", 2),
    (b"8@2R5Ph0GhEa?1bGBviEOwvlFR06EuOwgqriwnSwe7wvlOwwsAwwnSGmwvwt", 0),
    (b"91b55wi;hbOS@OdQAC062Ch2089h", 0), (b":5MlU41GMK6@", 0), (b":6TMCD1GOS60", 0),
    (b";03sl8AvA;5AO7gnf@<FdSA00000", 0), (b"<42Lati0W:Ov=C7P6B?=Pjoihhjhqq0", 2),
    (b"<5?SIj1;GbD07??4", 0), (b"=39UOj0jFs9R", 0), (b">5?Per18=HB1U:1@E=B0m<L", 2),
    (b"?03Owo@nwsI0D00", 2), (b"?04759iVhc2lD003000", 2), (b"?>eq`dAh3`TQP00", 2),
    (b"@01uEO@hsqJ0<P00", 0), (b"@01uEO@mMk7P<P00", 0), (b"@6STUk004lQ206bCKNOBAb6SJ@5s", 0),
    (b"A02VqLPA4I6C07h5Ed1h<OrsuBTTwS?r:C?w`?la<gno1RTRwSP9:BcurA8a:Oko02TSwu8<:Jbb", 0),
    (b"B6:hQDh0029Pt<4TAS003h6TSP00", 0),
    (b"C6:ijoP00:9NNF4TEspILDN0Vc0jNc1WWV0000000000S2<6R20P", 0),
    (b"D02;bK0RlLfq6DM6DA8u6D0", 2), (b"D02<HjiUHBfr<`E6D0", 4),
    (b"E>kb9II9S@0`8@:9ah;0TahIW@@;Uafb:r5Ih00003vP100", 0), (b"E>kb9O9aS@7PUh", 4),
    (b"G02OHAP8aLvg@@b1tF600000;00", 2), (b"H3mr@L4NC=D62?P<7nmpl00@8220", 0),
    (b"H6:lEgQL4r1<QDr0P4pN3KSKP00", 2), (b"H>cfmI4UFC@0DAN00000000H3110", 0),
    (b"K01;FQh?PbtE3P00", 0), (b"KC5E2b@U19PFdLbMuc5=ROv62<7m", 0),
]


def unarmor(payload, fill):
    """Reference-free helper for generators only (judging is done by the TLA+ Unarmor)."""
    v = 0
    for c in payload:
        v = (v << 6) | (c - 48 if c < 88 else c - 56)
    n = 6 * len(payload)
    if fill:
        v = (v >> fill) << fill
    nb = (n + 7) // 8
    return (v << (8 * nb - n)).to_bytes(nb, "big")
