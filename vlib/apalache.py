"""C06 over the full u8 ranges: AisParserApa's inductive invariant discharged by Apalache (symbolic, SMT).
Base case, inductive step, and a negative control (the stale-group deviation must break the invariant).
Best effort: if Apalache is not available or does not finish, that is reported and nothing else depends on it."""
import os, shutil, time
from .common import *


def run_apalache(prop, tier):
    t0 = time.time()
    wdir = ensure(os.path.join(WORK, "apa_%d" % os.getpid()))
    shutil.copy(os.path.join(SPEC, "AisParserApa.tla"), wdir)
    results = []
    status = "ok"
    for (cinit, init, length, expect) in (("CInitIdeal", "Init", 0, "NoError"), ("CInitIdeal", "IndInit", 1, "NoError"),
                                          ("CInitStale", "IndInit", 1, "Error")):
        try:
            rc, out = run(["apalache-mc", "check", "--cinit=" + cinit, "--init=" + init, "--inv=IndInv",
                           "--length=%d" % length, "--out-dir=" + os.path.join(wdir, "out"), "AisParserApa.tla"],
                          cwd=wdir, timeout=600)
        except Exception as ex:
            status = "not run (%s)" % type(ex).__name__
            break
        got = "NoError" if "The outcome is: NoError" in out else "Error" if "The outcome is: Error" in out else "unknown"
        results.append(dict(cinit=cinit, init=init, length=length, expected=expect, outcome=got))
        if got == "unknown":
            status = "not run (no outcome)"
            break
        if got != expect:
            shutil.rmtree(wdir, ignore_errors=True)
            raise ToolError("Apalache: %s/%s length %d: expected %s, got %s - the inductive invariant of AisParserApa "
                            "does not hold (or its negative control is vacuous)" % (cinit, init, length, expect, got))
    shutil.rmtree(wdir, ignore_errors=True)
    summary = dict(name="apalache-inductive-invariant", module="AisParserApa", status=status, obligations=results,
                   ranges="n, k in 0..255, id in -1..255", wall_s=round(time.time() - t0, 1))
    return dict(summary=summary, states=0, transitions=0, traces=0, events=0, distinct=0, samples=[], violations=[], devs={})
