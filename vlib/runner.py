"""The check driver: bounded model checks of the design, scenario families recorded from the
real code and validated by the trace specification, verdict lines, evidence, replay."""
import json, os, sys, time, traceback
from .common import *
from . import build as B
from . import tlc as T
from . import engine as E
from . import plans


def _jobs():
    try:
        return max(2, min(14, (os.cpu_count() or 4) - 2))
    except Exception:
        return 4


def run_property(prop, tier):
    t0 = time.time()
    plan = plans.PLANS[prop]
    known = T.open_deviations()
    findings = [f for f in T.known_findings() if f.get("status") == "open" and f.get("property") == prop]
    out_lines = []
    ev = dict(states=0, transitions=0, traces=0, events=0, distinct=0, samples=[], mc=[], families=[],
              notes=[], assumptions=list(plan.get("assumptions", [])))
    violations = []      # (what, replay)
    notes_other = {}

    # 1. the code under test, rebuilt from /repo's working tree
    builds = plan.get("builds", ("std",))
    if plan.get("families") or plan.get("custom"):
        # always all three: families and custom engines name their own builds, and a stale recorder would
        # silently test yesterday's code
        B.build_recorders(BUILDS)

    # 2. the design: bounded model checking with TLC
    for mc in plan.get("mc", []):
        if mc.get("tier") == "thorough" and tier != "thorough":
            continue
        res = T.run_mc(mc["module"], mc["cfg"], workers=mc.get("workers", 4), timeout=mc.get("timeout", 900),
                       coverage=mc.get("coverage", False), xmx=mc.get("xmx", "4g"))
        expect = mc.get("expect", "hold")
        rec = dict(module=mc["module"], cfg=mc["cfg"], expect=expect, generated=res["generated"],
                   distinct=res["distinct"], violated=res["violated"], wall_s=res["wall_s"])
        ev["mc"].append(rec)
        if expect == "hold":
            if not res["ok"]:
                raise ToolError("the specification itself violates %s in %s/%s:\n%s" % (
                    res["violated"] or res["assumption_false"], mc["module"], mc["cfg"], res["out"][-3000:]))
            ev["states"] += res["distinct"]
            ev["transitions"] += res["generated"]
        else:   # negative control: the named deviation must break the invariant (non-vacuity)
            if expect not in res["violated"]:
                raise ToolError("negative control %s/%s: expected %s to be violated, got %s" % (
                    mc["module"], mc["cfg"], expect, res["violated"]))
            rec["negative_control_ok"] = True

    # 3. the binding: recorded traces validated against the specification
    jobs = _jobs()
    for fam in plan.get("families", []):
        if fam.get("tier") == "thorough" and tier != "thorough":
            continue
        sc = fam["gen"](tier)
        for b in fam.get("builds", builds):
            fr = E.run_family(fam["name"], sc, b, jobs=jobs, known=known, twin_merge=fam.get("twin_merge"))
            ev["families"].append(dict(name=fam["name"], build=b, events=fr.events, lines=fr.lines,
                                       decoded=fr.decoded, unspecified=fr.unspec, lost_skipped=fr.lostskip,
                                       classes=fr.classes, types=fr.types, violations=fr.nviol,
                                       known_deviation_matches=fr.devs, distinct_inputs=fr.distinct_inputs,
                                       wall_s=fr.wall_s))
            ev["states"] += fr.states
            ev["transitions"] += fr.events
            ev["traces"] += len(sc.units)
            ev["events"] += fr.events
            ev["distinct"] += fr.distinct_inputs
            if len(ev["samples"]) < 6:
                ev["samples"] += [dict(family=fam["name"], build=b, op=s) for s in fr.samples[:2]]
            for v in fr.viol:
                if prop in v["all"]:
                    violations.append((v, E.write_replay(prop, v)))
                else:
                    for p in v["all"]:
                        notes_other[p] = notes_other.get(p, 0) + 1
            # totals beyond the recorded cap
            if fr.nviol.get(prop, 0) > len([1 for v in fr.viol if prop in v["all"]]):
                ev["notes"].append("family %s/%s: %d violating events in total" % (fam["name"], b, fr.nviol[prop]))
            for f in findings:
                n = fr.devs.get(f["deviation"], 0)
                if n:
                    f["_hits"] = f.get("_hits", 0) + n
            # vacuity guards
            # (a run with violations is not vacuous: the code under test may be the reason an outcome is missing)
            for need in fam.get("need_classes", []):
                if fr.classes.get(need, 0) == 0 and not fr.viol:
                    raise ToolError("vacuous run: family %s/%s produced no '%s' outcome" % (fam["name"], b, need))
            for need in fam.get("need_types", []):
                if fr.types.get(str(need), 0) == 0 and not fr.viol:
                    raise ToolError("vacuous run: family %s/%s decoded no type %s" % (fam["name"], b, need))

    # 4. custom engines (table walk, coordinate sweep, CLI)
    for cu in plan.get("custom", []):
        if cu.get("tier") == "thorough" and tier != "thorough":
            continue
        r = cu["run"](prop, tier)
        ev["families"].append(r["summary"])
        ev["states"] += r.get("states", 0)
        ev["transitions"] += r.get("transitions", 0)
        ev["traces"] += r.get("traces", 0)
        ev["events"] += r.get("events", 0)
        ev["distinct"] += r.get("distinct", 0)
        ev["samples"] += r.get("samples", [])[:2]
        for v in r.get("violations", []):
            if prop in v["all"]:
                violations.append((v, E.write_replay(prop, v)))
            else:
                for p in v["all"]:
                    notes_other[p] = notes_other.get(p, 0) + 1
        for f in findings:
            n = r.get("devs", {}).get(f["deviation"], 0)
            if n:
                f["_hits"] = f.get("_hits", 0) + n

    # 5. verdict
    for f in findings:
        if f.get("_hits"):
            out_lines.append("KNOWN-FINDING: property=%s %s [%s, %d observations matched exactly this deviation]" % (
                prop, f["what"], f["id"], f["_hits"]))
    seen = set()
    for v, path in violations:
        key = (v["what"], v["build"])
        if key in seen and len(seen) > 20:
            continue
        seen.add(key)
        out_lines.append("VIOLATION property=%s replay=%s" % (prop, path))
        out_lines.append("  # build=%s family=%s: %s" % (v["build"], v["family"], v["what"].replace("\n", " ")[:200]))
    for p, n in sorted(notes_other.items()):
        out_lines.append("NOTE: %d observation(s) in this run also contradict %s (reported by that property's own check)" % (n, p))

    wall = round(time.time() - t0, 1)
    exhaustive = bool(plan.get("exhaustive")) and (tier == "thorough" or plan.get("exhaustive") == "both")
    evidence = dict(
        property_id=prop, tier=tier, seed=seed(), level="model_checking",
        coverage=dict(
            states=max(1, ev["states"]), transitions=max(1, ev["transitions"]),
            traces_validated_against_impl=ev["traces"],
            samples=ev["samples"] or [dict(note="model checking only")],
            evaluations=max(1, ev["events"]), distinct_nontrivial=max(2, ev["distinct"]),
            rule=plan.get("rule", ""), exhaustive=exhaustive,
            checker_cmd="bin/check %s %s" % (prop, tier),
            model_checks=ev["mc"], families=ev["families"], notes=ev["notes"],
            known_findings=[dict(id=f["id"], hits=f.get("_hits", 0)) for f in findings]),
        assumptions=ev["assumptions"], wall_s=wall, violations=len(violations))
    ensure(EVIDENCE)
    with open(os.path.join(EVIDENCE, "%s.json" % prop), "w") as f:
        json.dump(evidence, f, indent=1)
    for l in out_lines:
        print(l)
    print("SUMMARY property=%s tier=%s states=%d transitions=%d traces=%d events=%d violations=%d wall_s=%s" % (
        prop, tier, ev["states"], ev["transitions"], ev["traces"], ev["events"], len(violations), wall))
    return 1 if violations else 0


def main(argv):
    try:
        if len(argv) >= 2 and argv[0] == "--replay":
            d, fr, hit = E.replay(argv[1])
            print("replay of %s (build %s): %d events, violations %s" % (argv[1], d["build"], fr.events, fr.nviol))
            for v in hit:
                print("VIOLATION property=%s replay=%s" % (d["property"], argv[1]))
                print("  # %s" % v["what"].replace("\n", " ")[:200])
                break
            return 1 if hit else 0
        if len(argv) < 1 or argv[0] not in plans.PLANS:
            print("usage: bin/check <%s> quick|thorough | --replay <file>" % "|".join(sorted(plans.PLANS)))
            return 2
        tier = argv[1] if len(argv) > 1 else os.environ.get("VERIF_TIER", "quick")
        if tier not in ("quick", "thorough"):
            tier = "quick"
        return run_property(argv[0], tier)
    except ToolError as ex:
        print("TOOL-ERROR: %s" % ex)
        return 2
    except Exception:
        traceback.print_exc()
        print("TOOL-ERROR: unexpected exception in the checking machinery")
        return 2
