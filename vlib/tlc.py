"""Running TLC: bounded model checks (MC_*), table export, sharded trace validation."""
import concurrent.futures, json, os, re, shutil, time
from .common import *

_MC_RE = re.compile(r"(\d+) states generated, (\d+) distinct states found")


def known_findings():
    p = os.path.join(VERIF, "known_findings.json")
    if not os.path.exists(p):
        return []
    return json.load(open(p)).get("findings", [])


def open_deviations():
    return sorted({f["deviation"] for f in known_findings() if f.get("status") == "open" and f.get("deviation")})


def run_mc(module, cfg, workers=4, timeout=900, coverage=False, xmx="4g", extra_env=None):
    """Model-checks spec/<module>.tla with spec/<cfg>. Returns a dict."""
    meta = ensure(os.path.join(WORK, "mc_%s_%d" % (cfg.replace(".cfg", ""), os.getpid())))
    cmd = [TLCW, "-workers", str(workers), "-metadir", meta, "-cleanup", "-noGenerateSpecTE"]
    if coverage:
        cmd += ["-coverage", "1"]
    cmd += ["-config", cfg, module + ".tla"]
    env = {"TLC_XMX": xmx, "TLC_GCT": "2"}
    if extra_env:
        env.update(extra_env)
    t0 = time.time()
    try:
        rc, out = run(cmd, cwd=SPEC, env=env, timeout=timeout)
    except Exception as ex:  # timeout
        shutil.rmtree(meta, ignore_errors=True)
        raise ToolError("TLC %s/%s did not finish: %s" % (module, cfg, ex))
    shutil.rmtree(meta, ignore_errors=True)
    m = _MC_RE.findall(out)
    gen, dist = (int(m[-1][0]), int(m[-1][1])) if m else (0, 0)
    violated = re.findall(r"Invariant (\S+) is violated", out)
    violated += re.findall(r"Action property (\S+) is violated", out)
    violated += re.findall(r"Temporal property (\S+) was violated", out)
    if "Temporal properties were violated" in out:
        violated.append("temporal")
    assumption_false = re.findall(r"Assumption (line \d+, col \d+ to line \d+, col \d+ of module \S+) is false", out)
    ok = ("Model checking completed. No error has been found." in out)
    res = dict(module=module, cfg=cfg, ok=ok, generated=gen, distinct=dist, violated=violated,
               assumption_false=assumption_false, wall_s=round(time.time() - t0, 1), out=out)
    if not ok and not violated and not assumption_false:
        raise ToolError("TLC %s/%s failed:\n%s" % (module, cfg, out[-4000:]))
    return res


_tables = None


def tables():
    """Layout / threshold / sentinel tables exported from the specification by TLC."""
    global _tables
    if _tables is not None:
        return _tables
    ensure(WORK)
    srcs = ["AisLayouts.tla", "AisDecode.tla", "ExportTables.tla", "AisEnums.tla", "AisText.tla", "AisBits.tla"]
    h = hashlib.sha256()
    for s in srcs:
        h.update(open(os.path.join(SPEC, s), "rb").read())
    cache = os.path.join(WORK, "tables_%s.json" % h.hexdigest()[:16])
    if os.path.exists(cache):
        _tables = json.load(open(cache))
        return _tables
    meta = ensure(os.path.join(WORK, "exp_%d" % os.getpid()))
    rc, out = run([TLCW, "-metadir", meta, "-cleanup", "-noGenerateSpecTE", "-config", "ExportTables.cfg",
                   "ExportTables.tla"], cwd=SPEC, timeout=300)
    shutil.rmtree(meta, ignore_errors=True)
    pl = tlc_string_payload(out, "TABLES")
    if not pl:
        raise ToolError("table export failed:\n" + out[-3000:])
    _tables = json.loads(pl[0])
    json.dump(_tables, open(cache, "w"))
    return _tables


def trace_cfg(build, known):
    """Writes (once per content) the trace config for a build and a set of open deviations."""
    name = "Trace_%s_%s.cfg" % (build, hashlib.sha256(",".join(known).encode()).hexdigest()[:8])
    path = os.path.join(WORK, name)
    txt = ("CONSTANTS\n  Build = \"%s\"\n  Known = {%s}\n  ArmorDev = {}\n"
           "SPECIFICATION Spec\nINVARIANTS TraceTypeOK TraceStateInv\nPOSTCONDITION AllConsumed\n"
           "CHECK_DEADLOCK FALSE\n") % (build, ", ".join('"%s"' % k for k in known))
    ensure(WORK)
    if not os.path.exists(path) or open(path).read() != txt:
        open(path, "w").write(txt)
    return path


def validate_trace(trace_path, build, known=None, timeout=1800, xmx="2g"):
    """Runs the trace specification over one ndjson trace. Returns the RESULT dict.
    One retry: a JVM that was killed or starved under memory pressure says nothing about the trace."""
    try:
        return _validate_trace(trace_path, build, known, timeout, xmx)
    except ToolError:
        time.sleep(5)
        return _validate_trace(trace_path, build, known, timeout, xmx)


def _validate_trace(trace_path, build, known=None, timeout=1800, xmx="2g"):
    if known is None:
        known = open_deviations()
    cfg = trace_cfg(build, known)
    meta = ensure(os.path.join(WORK, "tv_%d_%s" % (os.getpid(), os.path.basename(trace_path))))
    env = {"TRACE": trace_path, "TLC_XMX": xmx, "TLC_GCT": "1",
           "TLC_JAVA_OPTS": "-Dtlc2.tool.queue.IStateQueue=StateDeque"}
    t0 = time.time()
    try:
        rc, out = run([TLCW, "-workers", "1", "-metadir", meta, "-cleanup", "-noGenerateSpecTE",
                       "-config", cfg, "AisTrace.tla"], cwd=SPEC, env=env, timeout=timeout)
    except Exception as ex:
        shutil.rmtree(meta, ignore_errors=True)
        raise ToolError("trace validation of %s did not finish: %s" % (trace_path, ex))
    shutil.rmtree(meta, ignore_errors=True)
    pl = tlc_string_payload(out, "RESULT")
    if not pl or "Model checking completed. No error has been found." not in out:
        raise ToolError("trace validation of %s failed:\n%s" % (trace_path, out[-5000:]))
    res = json.loads(pl[-1])
    m = _MC_RE.findall(out)
    res["states"] = int(m[-1][1]) if m else 0
    res["wall_s"] = round(time.time() - t0, 1)
    return res


def validate_shards(shards, build, jobs=8, known=None):
    """shards: list of trace paths. Returns list of RESULT dicts (same order)."""
    with concurrent.futures.ThreadPoolExecutor(max_workers=jobs) as ex:
        futs = [ex.submit(validate_trace, s, build, known) for s in shards]
        return [f.result() for f in futs]
