------------------------------ MODULE MC_Armor ------------------------------
(***************************************************************************)
(* C03 as a model-checking problem: every (string, fill) pair of the       *)
(* bounded domain is an initial state; the invariant says that the         *)
(* implementation-shaped algorithm, the requirement-shaped definition and  *)
(* the fast form agree, are fault-free and have the stated length.         *)
(***************************************************************************)
EXTENDS Integers, Sequences, FiniteSets, TLC, AisBits, AisArmor

VARIABLES d, fill
vars == <<d, fill>>

Sym6 == {48, 87, 96, 119, 85, 106}       \* '0' 'W' '`' 'w' 'U' 'j': both ranges, their edges, 010101 / 101010 ...
Sym2 == {119, 85}
Bad == {0, 47, 88, 95, 120, 255, 44, 42}
RECURSIVE SeqsOf(_, _)
SeqsOf(S, n) == IF n = 0 THEN {<< >>} ELSE {Append(s, x) : s \in SeqsOf(S, n - 1), x \in S}

Domain == (UNION {SeqsOf(Sym6, n) : n \in 0..5})
          \cup (UNION {SeqsOf(Sym2, n) : n \in 6..12})
          \cup {[<<48, 87, 119, 85>> EXCEPT ![pos] = c] : pos \in 1..4, c \in Bad}

Init == d \in Domain /\ fill \in 0..5
Next == UNCHANGED vars
Spec == Init /\ [][Next]_vars

ArmorInv ==
    LET r == UnarmorReq(d, fill) a == UnarmorAlg(d, fill) f == Unarmor(d, fill)
    IN  /\ ~a.fault
        /\ r.ok = AllArmor(d) /\ a.ok = r.ok /\ f.ok = r.ok
        /\ r.ok => /\ r.out = a.out /\ r.out = f.out
                   /\ Len(r.out) = CeilDiv(6 * Len(d), 8)
                   \* the last `fill` of the 6n bits and every bit beyond are zero
                   /\ \A p \in (6 * Len(d) - fill)..(8 * Len(r.out) - 1) : p >= 0 => BitAt(r.out, p) = 0
                   \* the leading bits are the characters' 6-bit values
                   /\ \A i \in 1..Len(d) : (6 * i <= 6 * Len(d) - fill) => Bits(r.out, 6 * (i - 1), 6) = SixBit(d[i])
=============================================================================
