------------------------------ MODULE AisParser ------------------------------
(***************************************************************************)
(* The only stateful object of the crate: AisParser, the fragment          *)
(* reassembly state machine (properties C02, C05, C06, C07, C17, C01).     *)
(*                                                                         *)
(* A parser state is [id, no, data]:                                       *)
(*   id   sequence id of the open group (-1 = none)                        *)
(*   no   number of the last accepted fragment (0 = no group open)         *)
(*   data concatenated payload of the accepted fragments                   *)
(* A line is the record produced by AisNmea!ParseLine (or an abstract      *)
(* stand-in with the same fields in the bounded models):                   *)
(*   [ok, n, k, id, payload, fill, ckGiven, ckComputed, ...]               *)
(*                                                                         *)
(* This module has no variables: it defines the guards of every outcome    *)
(* path of AisParser::parse (sentence.rs:130-172), in the code's order,    *)
(* and the deterministic step function built from them.  The state         *)
(* machines (AisParserMC, AisTwin, AisBuilds, AisCli) and the trace        *)
(* specifications all instantiate these same operators.                    *)
(*                                                                         *)
(* The ideal specification is what the properties demand.  Where the code  *)
(* as pinned did something else, the behaviour is a *named deviation*      *)
(* switched on by membership in the parameter `dev`.                       *)
(***************************************************************************)
EXTENDS Integers, Sequences

DeviationIds == {"u8_sub_underflow", "stale_group_after_delivery",
                 "noalloc_fragno_before_extend"}

Closed == [id |-> -1, no |-> 0, data |-> << >>]
Fresh == Closed

HasMore(ln) == ln.k < ln.n              \* AisSentence::has_more
IsFragment(ln) == ln.n # 1              \* AisSentence::is_fragment
ValidNumbering(ln) == 1 <= ln.k /\ ln.k <= ln.n

Good(ln) == ln.ok /\ ln.ckGiven = ln.ckComputed

\* state as seen by verify_and_extend_data: a fragment 1 with more to come resets first
Base(st, ln) == IF HasMore(ln) /\ ln.k = 1 THEN [id |-> ln.id, no |-> 0, data |-> << >>] ELSE st

IdOk(st, ln) == Base(st, ln).id = ln.id
\* `fragment_number - self.fragment_number != 1` in u8: underflow is a fault as built
SubFault(st, ln, dev) == "u8_sub_underflow" \in dev /\ IdOk(st, ln) /\ ln.k < Base(st, ln).no
NoOk(st, ln) == ln.k = Base(st, ln).no + 1
CapOk(st, ln, cap) == cap = 0 \/ Len(Base(st, ln).data) + Len(ln.payload) <= cap

--------------------------------------------------------------------------
(* Guards, one per outcome path. *)
GRejectForm(ln)          == ~ln.ok
GRejectChecksum(ln)      == ln.ok /\ ln.ckGiven # ln.ckComputed
Sequenced(ln)            == Good(ln) /\ (HasMore(ln) \/ IsFragment(ln))
GSingle(ln)              == Good(ln) /\ ~HasMore(ln) /\ ~IsFragment(ln)
GFault(st, ln, dev)      == Sequenced(ln) /\ SubFault(st, ln, dev)
GRejectSeqId(st, ln)     == Sequenced(ln) /\ ~IdOk(st, ln)
GRejectSeqNo(st, ln, dev) == Sequenced(ln) /\ IdOk(st, ln) /\ ~SubFault(st, ln, dev) /\ ~NoOk(st, ln)
GRejectCap(st, ln, cap)  == Sequenced(ln) /\ IdOk(st, ln) /\ NoOk(st, ln) /\ ~CapOk(st, ln, cap)
Accepts(st, ln, cap)     == Sequenced(ln) /\ IdOk(st, ln) /\ NoOk(st, ln) /\ CapOk(st, ln, cap)
GOpenGroup(st, ln, cap)  == Accepts(st, ln, cap) /\ HasMore(ln) /\ ln.k = 1
GContinueGroup(st, ln, cap) == Accepts(st, ln, cap) /\ HasMore(ln) /\ ln.k # 1
GDeliverGroup(st, ln, cap)  == Accepts(st, ln, cap) /\ ~HasMore(ln)

\* outcome class of a line in a state; exactly one guard holds (checked by TLC)
Class(st, ln, cap, dev) ==
    IF GRejectForm(ln) THEN "reject_form"
    ELSE IF GRejectChecksum(ln) THEN "reject_checksum"
    ELSE IF GSingle(ln) THEN "single"
    ELSE IF GFault(st, ln, dev) THEN "fault"
    ELSE IF GRejectSeqId(st, ln) THEN "reject_seq_id"
    ELSE IF GRejectSeqNo(st, ln, dev) THEN "reject_seq_no"
    ELSE IF GRejectCap(st, ln, cap) THEN "reject_cap"
    ELSE IF GOpenGroup(st, ln, cap) THEN "open"
    ELSE IF GContinueGroup(st, ln, cap) THEN "continue"
    ELSE "deliver"

Classes == {"reject_form", "reject_checksum", "single", "fault", "reject_seq_id",
            "reject_seq_no", "reject_cap", "open", "continue", "deliver"}
RejectClasses == {"reject_form", "reject_checksum", "reject_seq_id", "reject_seq_no", "reject_cap"}
\* observable result kind of a class (before payload decoding)
ResultOf(c) == IF c \in {"open", "continue"} THEN "incomplete"
               ELSE IF c \in {"single", "deliver"} THEN "complete"
               ELSE IF c = "reject_checksum" THEN "err_checksum"
               ELSE IF c = "fault" THEN "panic"
               ELSE "err_nmea"

\* successor state
NextState(st, ln, cap, dev) ==
    LET c == Class(st, ln, cap, dev)
        b == Base(st, ln)
    IN  IF c \in {"open", "continue"}
        THEN [id |-> b.id, no |-> ln.k, data |-> b.data \o ln.payload]
        ELSE IF c = "deliver"
        THEN IF "stale_group_after_delivery" \in dev
             THEN [id |-> b.id, no |-> ln.k, data |-> << >>]       \* as built: id/number left in place
             ELSE Closed                                           \* ideal: the group is closed
        ELSE IF c = "reject_cap" /\ "noalloc_fragno_before_extend" \in dev
        THEN [b EXCEPT !.no = ln.k]                                \* as built: number advanced first
        ELSE IF c \in {"reject_seq_id", "reject_seq_no", "reject_cap"} /\ HasMore(ln) /\ ln.k = 1
        THEN b        \* unreachable: a resetting first fragment always passes the checks
        ELSE st

\* payload reported by Complete / Incomplete
DataOf(st, ln, cap, dev) ==
    IF Class(st, ln, cap, dev) = "deliver" THEN Base(st, ln).data \o ln.payload ELSE ln.payload

Outcome(st, ln, cap, dev) ==
    [class |-> Class(st, ln, cap, dev),
     st |-> NextState(st, ln, cap, dev),
     data |-> DataOf(st, ln, cap, dev)]
=============================================================================
