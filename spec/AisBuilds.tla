------------------------------ MODULE AisBuilds ------------------------------
(***************************************************************************)
(* C18: the three build configurations in lock step.                       *)
(* std and alloc have no capacities; the no-allocator build holds at most  *)
(* Cap payload units per (reassembled) sentence.  Every line goes to all   *)
(* three.  Equiv: std and alloc always agree; the no-allocator build       *)
(* agrees with them unless a capacity was exceeded by this line or earlier *)
(* in the open group, in which case its outcome is an error - never a      *)
(* value, never a fault - and a delivery is never contaminated.            *)
(***************************************************************************)
EXTENDS Integers, Sequences, FiniteSets, TLC, AisParser

CONSTANTS Ids, MaxN, MaxK, Lens, Cap, Dev

VARIABLES pstd, palloc, pnone, last
vars == <<pstd, palloc, pnone, last>>

IdIdx(id) == IF id = -1 THEN 0 ELSE id
Payload(k, id, len) == [i \in 1..len |-> 1000 * (i - 1) + 10 * IdIdx(id) + k]
GoodLine(n, k, id, len) == [ok |-> TRUE, n |-> n, k |-> k, id |-> id, payload |-> Payload(k, id, len),
                            ckGiven |-> 0, ckComputed |-> 0]
BadForm == [ok |-> FALSE, n |-> 0, k |-> 0, id |-> -1, payload |-> << >>, ckGiven |-> 0, ckComputed |-> 0]
Lines == {BadForm} \cup {GoodLine(n, k, id, len) : n \in 1..MaxN, k \in 1..MaxK, id \in Ids, len \in Lens}

\* the sentence layer of the no-allocator build rejects a payload longer than Cap as ill-formed
ForNone(ln) == IF ln.ok /\ Len(ln.payload) > Cap THEN [ln EXCEPT !.ok = FALSE] ELSE ln

Init == /\ pstd = Fresh /\ palloc = Fresh /\ pnone = Fresh
        /\ last = [cs |-> "init", ca |-> "init", cn |-> "init", ds |-> << >>, da |-> << >>, dn |-> << >>,
                   exceeded |-> FALSE, presame |-> TRUE, nonekept |-> TRUE]

Step(ln) ==
    LET os == Outcome(pstd, ln, 0, {})
        oa == Outcome(palloc, ln, 0, {})
        on == Outcome(pnone, ForNone(ln), Cap, Dev)
        exceeded == (ln.ok /\ Len(ln.payload) > Cap) \/ on.class = "reject_cap"
    IN  /\ pstd' = os.st /\ palloc' = oa.st /\ pnone' = on.st
        /\ last' = [cs |-> os.class, ca |-> oa.class, cn |-> on.class, ds |-> os.data, da |-> oa.data,
                    dn |-> on.data, exceeded |-> exceeded, presame |-> (pstd = pnone),
                    nonekept |-> (on.st = pnone)]

Next == \E ln \in Lines : Step(ln)
Spec == Init /\ [][Next]_vars

IsError(c) == c \in RejectClasses

(* A capacity rejection is, for the no-allocator build, a rejected line: from then on its history  *)
(* differs from the other builds' (as if the line had been lost) until the states meet again, so    *)
(* equality is demanded exactly when the pre-states agree and this line exceeds nothing.            *)
Equiv ==
    /\ pstd = palloc /\ last.cs = last.ca /\ last.ds = last.da
    /\ last.cn # "fault"
    /\ (last.presame /\ ~last.exceeded) => (last.cn = last.cs /\ last.dn = last.ds /\ pnone = pstd)
    \* a capacity excess is an error - never a value, never a fault - and leaves no trace
    /\ last.exceeded => (IsError(last.cn) /\ last.nonekept)
=============================================================================
