CONSTANT ArmorDev = {}
INIT Init
NEXT Next
