CONSTANTS
  Pids = {1}
  Ids <- MCIds
  MaxN = 3
  MaxK = 4
  Lens = {1}
  Cap = 0
  Dev <- NoDev
  Export = TRUE
SPECIFICATION Spec
INVARIANTS ExportEdges
CHECK_DEADLOCK FALSE
