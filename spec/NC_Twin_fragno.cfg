CONSTANTS
  Ids <- MCIds
  MaxN = 3
  MaxK = 4
  Cap = 2
  Dev <- DevFragno
SPECIFICATION Spec
INVARIANT TwinInv
CHECK_DEADLOCK FALSE
