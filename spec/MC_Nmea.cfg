SPECIFICATION Spec
INVARIANT NmeaInv
CHECK_DEADLOCK FALSE
