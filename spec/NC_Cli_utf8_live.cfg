CONSTANTS
  Ids <- MCIds
  MaxN = 2
  MaxLines = 4
  CliDev <- DevUtf8
SPECIFICATION Spec
PROPERTY CliTerminates
CHECK_DEADLOCK FALSE
