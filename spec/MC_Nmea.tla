------------------------------ MODULE MC_Nmea ------------------------------
(***************************************************************************)
(* C08 / C02 / C07 at the design level: on a generated universe of lines   *)
(* (a valid sentence, every pair of field alternatives, every single-byte  *)
(* replacement / deletion / duplication) the implementation-shaped cursor  *)
(* parser ParseLine and the requirement-shaped Shape agree:                *)
(*     Shape(l).ok  <=>  ParseLine(l).ok /\ no '*' inside a field          *)
(* and when both accept they extract identical fields and the same         *)
(* checksum region.  Every line of the universe is an initial state.       *)
(***************************************************************************)
EXTENDS Integers, Sequences, FiniteSets, TLC, AisNmea

VARIABLE line
vars == <<line>>

\* field alternatives (byte strings)
Tags   == << << >>, <<92, 99, 58, 49, 92>>, <<92, 92>>, <<92, 99>>, <<92, 42, 92>> >>      \* none, \c:1\, \\, \c (unterminated), \*\
Delims == << <<33>>, <<36>>, <<35>>, << >> >>                                            \* ! $ # none
Addrs  == << <<65, 73, 86, 68, 77>>, <<66, 83, 86, 68, 79>>, <<65, 73, 86, 68>>, <<65, 73, 86, 68, 77, 88>>,
             <<65, 44, 86, 68, 77>>, <<255, 0, 86, 68, 77>> >>
Nums   == << <<49>>, <<48, 49>>, <<50>>, <<50, 53, 53>>, <<50, 53, 54>>, << >>, <<97>>, <<49, 97>>, <<45, 49>>,
             <<48, 48, 48, 48, 48, 48, 48, 48, 48, 48, 48, 49>>, <<57, 57, 57, 57, 57, 57, 57, 57, 57, 57, 57>> >>
IdsF   == << << >>, <<55>>, <<48>>, <<50, 53, 53>>, <<50, 53, 54>>, <<120>>, <<55, 120>> >>
Chans  == << <<65>>, << >>, <<65, 66>>, <<200>>, <<42>> >>
Pays   == << <<49, 53, 77>>, <<49>>, << >>, <<49, 42, 77>>, <<255, 0>> >>
Fills  == << <<48>>, <<53>>, <<54>>, <<48, 53>>, <<48, 54>>, << >>, <<50, 53, 54>>, <<120>> >>
Stars  == << <<42>>, << >>, <<44>> >>
\* checksum forms: "ok" is replaced by the computed value
Cks    == << "ok", "okl", "bad", "ok0", "ok8", "ok9", "none", "g", "hi1", "hi6" >>
Tails  == << << >>, <<13, 10>>, <<65>>, <<42, 48>> >>

Hex(n, lower) == LET D(v) == IF v < 10 THEN 48 + v ELSE (IF lower THEN 87 ELSE 55) + v IN <<D(n \div 16), D(n % 16)>>
Zeros(n) == [i \in 1..n |-> 48]

Build(tag, delim, addr, n, k, id, chan, pay, fill, star, ck, tail) ==
    LET body == addr \o <<44>> \o n \o <<44>> \o k \o <<44>> \o id \o <<44>> \o chan \o <<44>> \o pay \o <<44>> \o fill
        x == XorFold(body)
        cks == CASE ck = "ok" -> Hex(x, FALSE) [] ck = "okl" -> Hex(x, TRUE)
                 [] ck = "bad" -> Hex((x + 1) % 256, FALSE) [] ck = "ok0" -> <<48>> \o Hex(x, FALSE)
                 [] ck = "ok8" -> Zeros(6) \o Hex(x, FALSE) [] ck = "ok9" -> Zeros(7) \o Hex(x, FALSE)
                 [] ck = "none" -> << >> [] ck = "g" -> <<71>>
                 \* wider than a byte with the right low byte: must be rejected (value > 0xFF)
                 [] ck = "hi1" -> <<49>> \o Hex(x, FALSE) [] ck = "hi6" -> <<70, 70, 70, 70, 70, 70>> \o Hex(x, FALSE)
    IN  tag \o delim \o body \o star \o cks \o tail

Base == <<1, 1, 1, 1, 1, 1, 1, 1, 1, 1, 1, 1>>       \* index of the alternative chosen for each of the 12 slots
Sizes == <<Len(Tags), Len(Delims), Len(Addrs), Len(Nums), Len(Nums), Len(IdsF), Len(Chans), Len(Pays),
           Len(Fills), Len(Stars), Len(Cks), Len(Tails)>>
LineOf(c) == Build(Tags[c[1]], Delims[c[2]], Addrs[c[3]], Nums[c[4]], Nums[c[5]], IdsF[c[6]], Chans[c[7]],
                   Pays[c[8]], Fills[c[9]], Stars[c[10]], Cks[c[11]], Tails[c[12]])

\* all choices that differ from the base in at most two slots
Pairs == {[[Base EXCEPT ![i] = a] EXCEPT ![j] = b] : i \in 1..12, j \in 1..12, a \in 1..11, b \in 1..11}
LineChoices == {c \in Pairs : \A s \in 1..12 : c[s] <= Sizes[s]}

Good == LineOf(Base)
Repl == {44, 42, 48, 57, 65, 97, 32, 13, 33, 36, 92, 0, 255, 54}
ByteMutants ==
    {[Good EXCEPT ![p] = r] : p \in 1..Len(Good), r \in Repl}
    \cup {SubSeq(Good, 1, p - 1) \o SubSeq(Good, p + 1, Len(Good)) : p \in 1..Len(Good)}
    \cup {SubSeq(Good, 1, p) \o SubSeq(Good, p, Len(Good)) : p \in 1..Len(Good)}
    \cup {SubSeq(Good, 1, p) : p \in 0..Len(Good)}

Universe == {LineOf(c) : c \in LineChoices} \cup ByteMutants

Init == line \in Universe
Next == UNCHANGED vars
Spec == Init /\ [][Next]_vars

Same(a, b) == /\ a.n = b.n /\ a.k = b.k /\ a.id = b.id /\ a.chan = b.chan /\ a.payload = b.payload
              /\ a.fill = b.fill /\ a.ckGiven = b.ckGiven /\ a.ckComputed = b.ckComputed
              /\ a.talker = b.talker /\ a.report = b.report

NmeaInv ==
    LET p == ParseLine(line, 0) s == Shape(line)
    IN  /\ s.ok <=> (p.ok /\ ~p.starInField)
        /\ (s.ok /\ p.ok) => Same(p, s)
        \* the no-allocator build differs only by the payload capacity
        /\ ParseLine(line, 384).ok = p.ok
        /\ ParseLine(line, 2).ok = (p.ok /\ Len(p.payload) <= 2)
        \* accepted fields are in range
        /\ p.ok => (p.n \in 0..255 /\ p.k \in 0..255 /\ p.id \in -1..255 /\ p.fill \in 0..5
                    /\ p.ckGiven \in 0..255 /\ p.ckComputed \in 0..255 /\ Len(p.payload) >= 1)

\* the base sentence is accepted, and the universe exercises both outcomes (non-vacuity)
ASSUME Shape(Good).ok /\ Shape(Good).ckGiven = Shape(Good).ckComputed
ASSUME Cardinality({l \in Universe : Shape(l).ok}) > 100
ASSUME Cardinality({l \in Universe : ~Shape(l).ok}) > 1000
ASSUME \E l \in Universe : UnspecifiedStar(l, 0)
=============================================================================
