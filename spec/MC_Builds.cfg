CONSTANTS
  Ids <- MCIds
  MaxN = 3
  MaxK = 3
  Lens = {1, 2, 3, 4}
  Cap = 3
  Dev <- NoDev
SPECIFICATION Spec
INVARIANT Equiv
CHECK_DEADLOCK FALSE
