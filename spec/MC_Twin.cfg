CONSTANTS
  Ids <- MCIds
  MaxN = 3
  MaxK = 4
  Cap = 0
  Dev <- NoDev
SPECIFICATION Spec
INVARIANT TwinInv
CHECK_DEADLOCK FALSE
