------------------------------ MODULE AisCli ------------------------------
(***************************************************************************)
(* C20: the command-line tool (src/bin/aisparser.rs) as a sequential       *)
(* process: Read -> Parse -> EmitOut | EmitErr | (nothing) -> Read ...     *)
(* -> Done.  One AisParser instance lives across all lines, decoding is    *)
(* always requested.  The input stream is chosen line by line (at most     *)
(* MaxLines lines, then end of input).                                     *)
(*                                                                         *)
(* Requirement-shaped ghosts expOut / expErr record, from the parse        *)
(* outcome alone, which line indices the property says must appear on      *)
(* stdout / stderr.  Safety: the emitted records are exactly those, in     *)
(* order, and the tool never crashes.  Liveness: it reaches the end of the *)
(* input and exits with status 0.                                          *)
(* Named deviation cli_utf8_unwrap: as built, echoing a line that is not   *)
(* valid UTF-8 aborts the process (from_utf8(..).unwrap()).                *)
(***************************************************************************)
EXTENDS Integers, Sequences, FiniteSets, TLC, AisParser

CONSTANTS Ids, MaxN, MaxLines, CliDev

VARIABLES pc, ps, cur, count, stdout, stderr, expOut, expErr, exit
vars == <<pc, ps, cur, count, stdout, stderr, expOut, expErr, exit>>

IdIdx(id) == IF id = -1 THEN 0 ELSE id
\* an input line: its sentence-level content, whether its payload decodes, whether it is valid UTF-8
Mk(ok, ck, n, k, id, dec, utf8) ==
    [ok |-> ok, n |-> n, k |-> k, id |-> id, payload |-> <<10 * IdIdx(id) + k>>,
     ckGiven |-> ck, ckComputed |-> 0, dec |-> dec, utf8 |-> utf8]
Lines ==
    {Mk(FALSE, 0, 0, 0, -1, TRUE, u) : u \in BOOLEAN}                                  \* ill-formed / empty / noise
    \cup {Mk(TRUE, 1, 1, 1, -1, TRUE, u) : u \in BOOLEAN}                                \* wrong checksum
    \cup {Mk(TRUE, 0, n, k, id, d, u) : n \in 1..MaxN, k \in 1..MaxN, id \in Ids, d \in BOOLEAN, u \in BOOLEAN}

NoLine == Mk(FALSE, 0, 0, 0, -1, TRUE, TRUE)

Init == /\ pc = "Read" /\ ps = Fresh /\ cur = NoLine /\ count = 0
        /\ stdout = << >> /\ stderr = << >> /\ expOut = << >> /\ expErr = << >> /\ exit = -1

\* handle.split(b'\n') yields the next line, or the iterator ends
Read == /\ pc = "Read"
        /\ \/ /\ count < MaxLines
              /\ \E ln \in Lines : cur' = ln
              /\ count' = count + 1
              /\ pc' = "Parse"
              /\ UNCHANGED exit
           \/ /\ pc' = "Done" /\ exit' = 0 /\ UNCHANGED <<cur, count>>
        /\ UNCHANGED <<ps, stdout, stderr, expOut, expErr>>

\* parser.parse(line, true)
Parse == /\ pc = "Parse"
         /\ LET o == Outcome(ps, cur, 0, {})
                r == IF ResultOf(o.class) = "complete" /\ ~cur.dec THEN "err_nmea" ELSE ResultOf(o.class)
            IN  /\ ps' = o.st
                /\ IF r = "complete" THEN /\ pc' = "EmitOut" /\ expOut' = Append(expOut, count) /\ UNCHANGED expErr
                   ELSE IF r = "incomplete" THEN /\ pc' = "Read" /\ UNCHANGED <<expOut, expErr>>
                   ELSE /\ pc' = "EmitErr" /\ expErr' = Append(expErr, count) /\ UNCHANGED expOut
         /\ UNCHANGED <<cur, count, stdout, stderr, exit>>

Crashes == "cli_utf8_unwrap" \in CliDev /\ ~cur.utf8

\* println!("{:?}\t{:?}", from_utf8(line)..., sentence.message)
EmitOut == /\ pc = "EmitOut"
           /\ IF Crashes THEN /\ pc' = "Crashed" /\ exit' = 101 /\ UNCHANGED stdout
                         ELSE /\ stdout' = Append(stdout, count) /\ pc' = "Read" /\ UNCHANGED exit
           /\ UNCHANGED <<ps, cur, count, stderr, expOut, expErr>>

\* eprintln!("{:?}\t{:?}", from_utf8(&line)..., err)
EmitErr == /\ pc = "EmitErr"
           /\ IF Crashes THEN /\ pc' = "Crashed" /\ exit' = 101 /\ UNCHANGED stderr
                         ELSE /\ stderr' = Append(stderr, count) /\ pc' = "Read" /\ UNCHANGED exit
           /\ UNCHANGED <<ps, cur, count, stdout, expOut, expErr>>

Next == Read \/ Parse \/ EmitOut \/ EmitErr
Spec == Init /\ [][Next]_vars /\ WF_vars(Next)

IsPrefixOf(s, t) == Len(s) <= Len(t) /\ s = SubSeq(t, 1, Len(s))

CliSafety ==
    /\ pc # "Crashed"
    /\ IsPrefixOf(stdout, expOut) /\ IsPrefixOf(stderr, expErr)
    /\ Len(expOut) - Len(stdout) <= 1 /\ Len(expErr) - Len(stderr) <= 1
    /\ pc \in {"Read", "Done"} => (stdout = expOut /\ stderr = expErr)
    /\ pc = "Done" => exit = 0
    \* every line is accounted for exactly once: a record on one stream, or nothing (incomplete fragment)
    /\ \A i \in 1..Len(expOut) : \A j \in 1..Len(expErr) : expOut[i] # expErr[j]

CliTerminates == <>(pc = "Done" /\ exit = 0)
=============================================================================
