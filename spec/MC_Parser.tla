----------------------------- MODULE MC_Parser -----------------------------
EXTENDS AisParserMC
MCIds == {-1, 1, 2}
NoDev == {}
DevUnderflow == {"u8_sub_underflow"}
DevStale == {"stale_group_after_delivery"}
DevFragno == {"noalloc_fragno_before_extend"}
=============================================================================
