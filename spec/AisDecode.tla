------------------------------ MODULE AisDecode ------------------------------
(***************************************************************************)
(* The payload layer: what a byte string decodes to (C04, C09-C16).        *)
(*                                                                         *)
(* Decode(b) is requirement-shaped: it reads every field at its ITU        *)
(* absolute bit position (the Itu tables of AisLayouts), interprets it as   *)
(* the property texts say (sign extension, scaling, sentinels at the field's own        *)
(* resolution, enum tables, 6-bit text, SOTDMA/ITDMA state) and returns    *)
(*     [class, v, fields]                                                  *)
(*   class  "error"  only an error is acceptable (unsupported type, or     *)
(*                   shorter than the mandatory part)                      *)
(*          "exact"  protocol-legal length: the message must decode, and   *)
(*                   to exactly these fields                               *)
(*          "loose"  other lengths: an error is acceptable; a decoded      *)
(*                   message must still report these fields                *)
(*   v      the AisMessage variant name                                    *)
(*   fields a sequence of descriptors, one per reported field:             *)
(*          [name, prop, kind, ...] where prop is the property that owns   *)
(*          the field and kind says how an observation is compared:        *)
(*            "eq"   obs \in vals          (vals: set of acceptable values)*)
(*            "opt"  as "eq"; a presence mismatch is charged to C11        *)
(*            "f"    obs is round(value * 10^6); value = raw * P / Q       *)
(*            "optf" <<>> iff absent, else <<micro>> with the same test    *)
(*            "list" obs is a sequence; element-wise "eq" with count rule  *)
(*          devs: sequence of [dev, x] - as-built alternatives accepted    *)
(*          only when the named deviation is a listed known finding.       *)
(* MsgViolations(b, obs, known) compares a recorded observation with it    *)
(* and returns the set of <<property, field, what>> that do not hold.      *)
(***************************************************************************)
EXTENDS Integers, Sequences, FiniteSets, AisBits, AisText, AisEnums, AisLayouts

\* ---- descriptors --------------------------------------------------------
Eq(name, prop, x)        == [name |-> name, prop |-> prop, kind |-> "eq", vals |-> {x}, devs |-> << >>]
EqAny(name, prop, xs)    == [name |-> name, prop |-> prop, kind |-> "eq", vals |-> xs, devs |-> << >>]
EqDev(name, prop, x, d, ax) == [name |-> name, prop |-> prop, kind |-> "eq", vals |-> {x},
                                devs |-> << [dev |-> d, x |-> ax] >>]
Opt(name, prop, x)       == [name |-> name, prop |-> prop, kind |-> "opt", vals |-> {x}, devs |-> << >>]
Flt(name, raw, P, Q)     == [name |-> name, prop |-> "C10", kind |-> "f", raw |-> raw, P |-> P, Q |-> Q,
                             absent |-> FALSE, devs |-> << >>]
OptFlt(name, raw, P, Q, sentinel) ==
    [name |-> name, prop |-> "C10", kind |-> "optf", raw |-> raw, P |-> P, Q |-> Q,
     absent |-> (raw = sentinel), devs |-> << >>]

\* ---- raw access at ITU positions ----------------------------------------
R(b, L, name) == Bits(b, L[name][1], L[name][2])
U(b, L, name) == Eq(name, "C04", R(b, L, name))
Flag(b, L, name) == Eq(name, "C04", R(b, L, name))
TypeField(b) == Eq("message_type", "C09", Bits(b, 0, 6))
Header(b) == << TypeField(b), Eq("repeat_indicator", "C04", Bits(b, 6, 2)), Eq("mmsi", "C04", Bits(b, 8, 30)) >>

\* ---- value interpreters (AisValues) -------------------------------------
\* sentinels, from the property wording, at the field's own resolution
Lon28NA == 181 * 600000      \* 181 degrees in 1/10000 minute
Lat27NA == 91 * 600000
Lon18NA == 181 * 600         \* 181 degrees in 1/10 minute
Lat17NA == 91 * 600
\* micro-degrees per raw unit: 1/10000 min -> 10^6/600000 = 5/3 ; 1/10 min -> 10^6/600 = 5000/3
Lon28(b, L) == OptFlt("longitude", Signed(R(b, L, "longitude"), 28), 5, 3, Lon28NA)
Lat27(b, L) == OptFlt("latitude", Signed(R(b, L, "latitude"), 27), 5, 3, Lat27NA)
Lon18(b, L) == OptFlt("longitude", Signed(R(b, L, "longitude"), 18), 5000, 3, Lon18NA)
Lat17(b, L) == OptFlt("latitude", Signed(R(b, L, "latitude"), 17), 5000, 3, Lat17NA)
Sog10(b, L)  == OptFlt("speed_over_ground", R(b, L, "speed_over_ground"), 100000, 1, 1023)
SogRaw(b, L, na) == OptFlt("speed_over_ground", R(b, L, "speed_over_ground"), 1000000, 1, na)
Cog10(b, L)  == OptFlt("course_over_ground", R(b, L, "course_over_ground"), 100000, 1, 3600)
CogRaw(b, L, na) == OptFlt("course_over_ground", R(b, L, "course_over_ground"), 1000000, 1, na)

OptNot(name, prop, raw, na) == Opt(name, prop, IF raw = na THEN None ELSE Some(raw))
Heading(b, L) == OptNot("true_heading", "C04", R(b, L, "true_heading"), 511)
Rot(b, L) == LET s == Signed(R(b, L, "rate_of_turn"), 8)
             IN  Opt("rate_of_turn", "C04", IF s = -128 THEN None ELSE Some(s))

EnumF(name, x) == Eq(name, "C12", x)
OptEnum(name, x) == [name |-> name, prop |-> "C12", kind |-> "eq", vals |-> {x}, devs |-> << >>]
Text(b, name, off, nchars) == Eq(name, "C13", TextAt(b, off, nchars))

\* ---- communication state (AisRadio) -------------------------------------
\* 19 bits at `off`
SotdmaVals(b, off) ==
    LET sync == Bits(b, off, 2)
        to   == Bits(b, off + 2, 3)
        sub14 == Bits(b, off + 5, 14)
        base(subrec) == [k |-> "Sotdma", sync |-> Sync(sync), to |-> to, sub |-> subrec]
    IN  IF to = 0 THEN {base([k |-> "SlotOffset", a |-> sub14, b |-> -1])}
        ELSE IF to = 1 THEN
             \* hour in sub-message bits 13..9, minute in bits 8..2 (7 bits), bits 1..0 unused.
             \* A 6-bit reading of the minute (bit 8 treated as spare) agrees for every valid
             \* minute; for the invalid values >= 64 either reading is accepted (unspecified).
             {base([k |-> "UtcHourAndMinute", a |-> Bits(b, off + 5, 5), b |-> Bits(b, off + 10, 7)]),
              base([k |-> "UtcHourAndMinute", a |-> Bits(b, off + 5, 5), b |-> Bits(b, off + 11, 6)])}
        ELSE IF to \in {2, 4, 6} THEN {base([k |-> "SlotNumber", a |-> sub14, b |-> -1])}
        ELSE {base([k |-> "ReceivedStations", a |-> sub14, b |-> -1])}
ItdmaVals(b, off) ==
    {[k |-> "Itdma", sync |-> Sync(Bits(b, off, 2)), inc |-> Bits(b, off + 2, 13),
      slots |-> Bits(b, off + 15, 3), keep |-> Bits(b, off + 18, 1)]}
RadioStateOffset == 149     \* the last 19 bits of the 168-bit message, for all seven types
RadioSotdma(b) == EqAny("radio_status", "C16", SotdmaVals(b, RadioStateOffset))
RadioItdma(b)  == EqAny("radio_status", "C16", ItdmaVals(b, RadioStateOffset))
RadioSelected(b) == IF Bits(b, 148, 1) = 0 THEN RadioSotdma(b) ELSE RadioItdma(b)
\* type 9 as built: no selector consumed, 19 bits from bit 148, always SOTDMA
RadioType9(b) ==
    [name |-> "radio_status", prop |-> "C16", kind |-> "eq",
     vals |-> RadioSelected(b).vals,
     devs |-> << [dev |-> "type9_no_selector", xs |-> SotdmaVals(b, 148)] >>]

\* ---- per-type decoders ---------------------------------------------------
D123(b) ==
    Header(b) \o
    << OptEnum("navigation_status", NavStatus(R(b, Itu123, "navigation_status"))),
       Rot(b, Itu123), Sog10(b, Itu123), EnumF("position_accuracy", Accuracy(R(b, Itu123, "position_accuracy"))),
       Lon28(b, Itu123), Lat27(b, Itu123), Cog10(b, Itu123), Heading(b, Itu123),
       U(b, Itu123, "timestamp"), OptEnum("maneuver_indicator", Maneuver(R(b, Itu123, "maneuver_indicator"))),
       Flag(b, Itu123, "raim"),
       IF Bits(b, 0, 6) = 3 THEN RadioItdma(b) ELSE RadioSotdma(b) >>

D4(b) ==
    Header(b) \o
    << OptNot("year", "C04", R(b, Itu4, "year"), 0), OptNot("month", "C04", R(b, Itu4, "month"), 0),
       OptNot("day", "C04", R(b, Itu4, "day"), 0), U(b, Itu4, "hour"),
       OptNot("minute", "C04", R(b, Itu4, "minute"), 60), OptNot("second", "C04", R(b, Itu4, "second"), 60),
       EnumF("fix_quality", Accuracy(R(b, Itu4, "fix_quality"))), Lon28(b, Itu4), Lat27(b, Itu4),
       OptEnum("epfd_type", Epfd(R(b, Itu4, "epfd_type"))), Flag(b, Itu4, "raim"), RadioSotdma(b) >>

\* type 5: destination and DTE according to the bits actually present
D5(b) ==
    LET nbits == 8 * Len(b)
        avail == nbits - 302
        destBits == IF avail < 120 THEN avail ELSE 120
        destChars == destBits \div 6
        after == 302 + 6 * destChars          \* the code consumes whole characters only
        rest == nbits - after
        dteBit == IF rest > 0 THEN Bits(b, after, 1) ELSE 1      \* missing DTE -> not ready
    IN  Header(b) \o
        << U(b, Itu5, "ais_version"), U(b, Itu5, "imo_number"),
           Text(b, "callsign", 70, 7), Text(b, "vessel_name", 112, 20),
           OptEnum("ship_type", ShipType(R(b, Itu5, "ship_type"))),
           U(b, Itu5, "dimension_to_bow"), U(b, Itu5, "dimension_to_stern"),
           U(b, Itu5, "dimension_to_port"), U(b, Itu5, "dimension_to_starboard"),
           OptEnum("epfd_type", Epfd(R(b, Itu5, "epfd_type"))),
           OptNot("eta_month_utc", "C04", R(b, Itu5, "eta_month_utc"), 0),
           OptNot("eta_day_utc", "C04", R(b, Itu5, "eta_day_utc"), 0),
           U(b, Itu5, "eta_hour_utc"),
           OptNot("eta_minute_utc", "C04", R(b, Itu5, "eta_minute_utc"), 60),
           Flt("draught", R(b, Itu5, "draught"), 100000, 1),
           [Text(b, "destination", 302, destChars) EXCEPT !.prop = IF destChars = 20 THEN "C13" ELSE "C13C14"],
           \* DTE: bit 422 when present; missing -> not ready.  When a truncated message leaves
           \* a few bits after the last whole destination character, reading the next bit (as the
           \* code does, pinned by test_type5_truncated) or defaulting are both accepted (unspecified).
           [name |-> "dte", prop |-> IF nbits >= 423 THEN "C12" ELSE "C14", kind |-> "eq", devs |-> << >>,
            vals |-> IF nbits >= 423 THEN {Dte(Bits(b, 422, 1))}
                     ELSE IF rest > 0 THEN {Dte(dteBit), Dte(1)} ELSE {Dte(1)}] >>

Tail8(b, fromByte) == SubSeq(b, fromByte + 1, Len(b))    \* bytes from 0-based index fromByte
D6(b) ==
    Header(b) \o
    << U(b, Itu6, "seqno"), U(b, Itu6, "dest_mmsi"), Flag(b, Itu6, "retransmit"),
       Eq("dac", "C15", R(b, Itu6, "dac")), Eq("fid", "C15", R(b, Itu6, "fid")),
       Eq("data", "C15", Tail8(b, 11)) >>
D8(b) ==
    Header(b) \o
    << Eq("dac", "C15", R(b, Itu8, "dac")), Eq("fid", "C15", R(b, Itu8, "fid")),
       Eq("data", "C15", Tail8(b, 7)) >>

\* lists: entries wholly present, at most 4
ListCount(b, first, size) == LET c == (8 * Len(b) - first) \div size IN IF c > 4 THEN 4 ELSE c
AckAt(b, i) == [mmsi |-> Bits(b, 40 + 32 * (i - 1), 30), seq_num |-> Bits(b, 70 + 32 * (i - 1), 2)]
D7(b) ==
    Header(b) \o
    << [name |-> "acks", prop |-> "C14", kind |-> "list", devs |-> << >>,
        items |-> [i \in 1..ListCount(b, 40, 32) |-> AckAt(b, i)]] >>
ResAt(b, i) == LET o == 40 + 30 * (i - 1)
               IN  [offset |-> Bits(b, o, 12), num_slots |-> Bits(b, o + 12, 4),
                    timeout |-> Bits(b, o + 16, 3), increment |-> Bits(b, o + 19, 11)]
D20(b) ==
    Header(b) \o
    << [name |-> "reservations", prop |-> "C14", kind |-> "list", devs |-> << >>,
        items |-> [i \in 1..ListCount(b, 40, 30) |-> ResAt(b, i)]] >>

D9(b) ==
    Header(b) \o
    << OptNot("altitude", "C04", R(b, Itu9, "altitude"), 4095), SogRaw(b, Itu9, 1023),
       EnumF("position_accuracy", Accuracy(R(b, Itu9, "position_accuracy"))),
       Lon28(b, Itu9), Lat27(b, Itu9), Cog10(b, Itu9), U(b, Itu9, "timestamp"),
       EnumF("dte", Dte(R(b, Itu9, "dte"))), EnumF("assigned_mode", Assigned(R(b, Itu9, "assigned_mode"))),
       Flag(b, Itu9, "raim"), RadioType9(b) >>

D10(b) == Header(b) \o << U(b, Itu10, "dest_mmsi") >>

TextChars(b, first) == (8 * Len(b) - first) \div 6
D12(b) ==
    Header(b) \o
    << U(b, Itu12, "seqno"), U(b, Itu12, "dest_mmsi"), Flag(b, Itu12, "retransmit"),
       Text(b, "text", 72, TextChars(b, 72)) >>
D14(b) == Header(b) \o << Text(b, "text", 40, TextChars(b, 40)) >>

\* type 15: one or two stations, one or two requests for the first - according to the bits
\* actually present: a request whose 12-bit slot offset is cut off is reported without offset.
MsgRec(t, off) == [message_type |-> t, slot_offset |-> IF off = 0 THEN None ELSE Some(off)]
D15(b) ==
    LET nbits == 8 * Len(b)
        OffAt(name) == IF nbits >= Itu15[name][1] + 12 THEN R(b, Itu15, name) ELSE 0
        m11 == MsgRec(R(b, Itu15, "type1_1"), OffAt("offset1_1"))
        has12 == nbits >= 96                       \* spare + request type present
        m12 == MsgRec(R(b, Itu15, "type1_2"), OffAt("offset1_2"))
        m12zero == m12.message_type = 0 /\ m12.slot_offset = None
        has2 == nbits >= 146                       \* second MMSI and its request type present
        m21 == MsgRec(R(b, Itu15, "type2_1"), OffAt("offset2_1"))
        st1with == [mmsi |-> R(b, Itu15, "mmsi1"), messages |-> <<m11, m12>>]
        st1without == [mmsi |-> R(b, Itu15, "mmsi1"), messages |-> <<m11>>]
        \* an all-zero second request may be reported or dropped (unspecified)
        st1s == IF ~has12 THEN {st1without} ELSE IF m12zero THEN {st1with, st1without} ELSE {st1with}
        st2 == [mmsi |-> R(b, Itu15, "mmsi2"), messages |-> <<m21>>]
        \* bits beyond the 160-bit protocol maximum are outside the message definition: a further
        \* request read from them for the second station may be reported or not (unspecified)
        m22 == MsgRec(Bits(b, 160, 6), IF nbits >= 178 THEN Bits(b, 166, 12) ELSE 0)
        st2s == IF nbits >= 166 THEN {st2, [st2 EXCEPT !.messages = <<m21, m22>>]} ELSE {st2}
        \* as built before the repair: the second station is read from bit 108, its request from 138/144
        st2dev == [mmsi |-> Bits(b, 108, 30),
                   messages |-> <<MsgRec(Bits(b, 138, 6), IF nbits >= 156 THEN Bits(b, 144, 12) ELSE 0)>>]
    IN  Header(b) \o
        << [name |-> "stations", prop |-> IF nbits >= 160 THEN "C04" ELSE "C14", kind |-> "eq",
            vals |-> IF has2 THEN {<<s1, s2>> : s1 \in st1s, s2 \in st2s} ELSE {<<s1>> : s1 \in st1s},
            devs |-> IF has2 THEN << [dev |-> "type15_station2_offset",
                                      xs |-> {<<s1, st2dev>> : s1 \in st1s}] >> ELSE << >>] >>

D16(b) ==
    LET two == 8 * Len(b) >= 144
        O2(name) == [Opt(name, "C04", IF two THEN Some(R(b, Itu16, name)) ELSE None) EXCEPT !.prop = "C14"]
    IN  Header(b) \o
        << U(b, Itu16, "mmsi1"), U(b, Itu16, "offset1"), U(b, Itu16, "increment1"),
           O2("mmsi2"), O2("offset2"), O2("increment2") >>

D17(b) ==
    Header(b) \o
    << Lon18(b, Itu17), Lat17(b, Itu17),
       Eq("p_message_type", "C15", R(b, Itu17, "p_message_type")),
       Eq("p_station_id", "C15", R(b, Itu17, "p_station_id")),
       Eq("p_z_count", "C15", R(b, Itu17, "p_z_count")),
       Eq("p_sequence_number", "C15", R(b, Itu17, "p_sequence_number")),
       Eq("p_n", "C15", R(b, Itu17, "p_n")), Eq("p_health", "C15", R(b, Itu17, "p_health")),
       Eq("p_data", "C15", Tail8(b, 15)) >>

D18(b) ==
    Header(b) \o
    << Sog10(b, Itu18), EnumF("position_accuracy", Accuracy(R(b, Itu18, "position_accuracy"))),
       Lon28(b, Itu18), Lat27(b, Itu18), Cog10(b, Itu18), Heading(b, Itu18), U(b, Itu18, "timestamp"),
       EnumF("cs_unit", CsUnit(R(b, Itu18, "cs_unit"))), Flag(b, Itu18, "has_display"),
       Flag(b, Itu18, "has_dsc"), Flag(b, Itu18, "whole_band"), Flag(b, Itu18, "accepts_message_22"),
       EnumF("assigned_mode", Assigned(R(b, Itu18, "assigned_mode"))), Flag(b, Itu18, "raim"),
       RadioSelected(b) >>

D19(b) ==
    Header(b) \o
    << Sog10(b, Itu19), EnumF("position_accuracy", Accuracy(R(b, Itu19, "position_accuracy"))),
       Lon28(b, Itu19), Lat27(b, Itu19), Cog10(b, Itu19), Heading(b, Itu19), U(b, Itu19, "timestamp"),
       Text(b, "name", 143, 20),
       OptEnum("type_of_ship_and_cargo", ShipType(R(b, Itu19, "type_of_ship_and_cargo"))),
       U(b, Itu19, "dimension_to_bow"), U(b, Itu19, "dimension_to_stern"),
       U(b, Itu19, "dimension_to_port"), U(b, Itu19, "dimension_to_starboard"),
       OptEnum("epfd_type", Epfd(R(b, Itu19, "epfd_type"))), Flag(b, Itu19, "raim"),
       EnumF("dte", Dte(R(b, Itu19, "dte"))), EnumF("assigned_mode", Assigned(R(b, Itu19, "assigned_mode"))) >>

D21(b) ==
    Header(b) \o
    << OptEnum("aid_type", Navaid(R(b, Itu21, "aid_type"))), Text(b, "name", 43, 20),
       EnumF("accuracy", Accuracy(R(b, Itu21, "accuracy"))), Lon28(b, Itu21), Lat27(b, Itu21),
       U(b, Itu21, "dimension_to_bow"), U(b, Itu21, "dimension_to_stern"),
       U(b, Itu21, "dimension_to_port"), U(b, Itu21, "dimension_to_starboard"),
       OptEnum("epfd_type", Epfd(R(b, Itu21, "epfd_type"))), U(b, Itu21, "utc_second"),
       Flag(b, Itu21, "off_position"), U(b, Itu21, "regional_reserved"), Flag(b, Itu21, "raim"),
       Flag(b, Itu21, "virtual_aid"), Flag(b, Itu21, "assigned_mode") >>

D24(b) ==
    LET part == Bits(b, 38, 2)
    IN  Header(b) \o
        (IF part = 0 THEN << Eq("part", "C12", "A"), Text(b, "vessel_name", 40, 20) >>
         ELSE IF part = 1 THEN
              << Eq("part", "C12", "B"), OptEnum("ship_type", ShipType(R(b, Itu24, "ship_type"))),
                 Text(b, "vendor_id", 48, 3), Text(b, "model_serial", 66, 4),
                 U(b, Itu24, "unit_model_code"), U(b, Itu24, "serial_number"),
                 Text(b, "callsign", 90, 7), U(b, Itu24, "dimension_to_bow"),
                 U(b, Itu24, "dimension_to_stern"), U(b, Itu24, "dimension_to_port"),
                 U(b, Itu24, "dimension_to_starboard") >>
         ELSE << Eq("part", "C12", "Unknown"), Eq("part_number", "C12", part) >>)

\* type 27: sentinels at the 1/10 minute resolution; speed and course undivided.
\* As built before the repair the 18/17-bit value was compared with the 28/27-bit sentinel
\* (deviation type27_sentinel_resolution): 181 / 91 degrees were reported as present.
D27(b) ==
    LET lon == Lon18(b, Itu27)
        lat == Lat17(b, Itu27)
        WithDev(f, na28) == [f EXCEPT !.devs = << [dev |-> "type27_sentinel_resolution",
                                                   absent |-> (f.raw = na28)] >>]
    IN  Header(b) \o
        << EnumF("position_accuracy", Accuracy(R(b, Itu27, "position_accuracy"))), Flag(b, Itu27, "raim"),
           OptEnum("navigation_status", NavStatus(R(b, Itu27, "navigation_status"))),
           WithDev(lon, Lon28NA), WithDev(lat, Lat27NA), SogRaw(b, Itu27, 63), CogRaw(b, Itu27, 511),
           Flag(b, Itu27, "gnss_position_status") >>

\* ---- dispatch (C09) ------------------------------------------------------
VariantOf(t) ==
    CASE t \in 1..3 -> "PositionReport"          [] t = 4  -> "BaseStationReport"
      [] t = 5  -> "StaticAndVoyageRelatedData"  [] t = 6  -> "BinaryAddressedMessage"
      [] t = 7  -> "BinaryAcknowledgeMessage"    [] t = 8  -> "BinaryBroadcastMessage"
      [] t = 9  -> "StandardAircraftPositionReport" [] t = 10 -> "UtcDateInquiry"
      [] t = 11 -> "UtcDateResponse"             [] t = 12 -> "AddressedSafetyRelatedMessage"
      [] t = 13 -> "SafetyRelatedAcknowledgment" [] t = 14 -> "SafetyRelatedBroadcastMessage"
      [] t = 15 -> "Interrogation"               [] t = 16 -> "AssignmentModeCommand"
      [] t = 17 -> "DgnssBroadcastBinaryMessage" [] t = 18 -> "StandardClassBPositionReport"
      [] t = 19 -> "ExtendedClassBPositionReport" [] t = 20 -> "DataLinkManagementMessage"
      [] t = 21 -> "AidToNavigationReport"       [] t = 24 -> "StaticDataReport"
      [] t = 27 -> "LongRangeAisBroadcastMessage"
      [] OTHER -> "none"

\* the common name() strings (extended coverage, not a listed property)
NameOf(t) ==
    CASE t \in 1..3 -> "Position Report Class A" [] t = 4 -> "Base Station Report"
      [] t = 5 -> "Static and Voyage Related Data" [] t = 6 -> "Binary Addressed Message"
      [] t = 7 -> "Binary Acknowledge" [] t = 8 -> "Binary Broadcast Message"
      [] t = 9 -> "Standard SAR Aircraft Position Report" [] t = 10 -> "UTC/Date Inquiry"
      [] t = 11 -> "UTC/Date Response" [] t = 12 -> "Addressed Safety-Related Message"
      [] t = 13 -> "Safety-Related Acknowledge" [] t = 14 -> "Safety-Related Broadcast Message"
      [] t = 15 -> "Interrogation" [] t = 16 -> "Assignment Mode Command"
      [] t = 17 -> "DGNSS Broadcast Binary Message" [] t = 18 -> "Standard Class B Position Report"
      [] t = 19 -> "Extended Class B Position Report" [] t = 20 -> "Data Link Management Message"
      [] t = 21 -> "Aid to Navigation Report" [] t = 24 -> "Static Data Report"
      [] t = 27 -> "Long Range AIS Broadcast message"
      [] OTHER -> "none"

\* bits a message of type t with these leading bytes must have to be decodable at all
Needed(b, t) ==
    IF t = 24 /\ 8 * Len(b) >= 40
    THEN (IF Bits(b, 38, 2) = 0 THEN 160 ELSE IF Bits(b, 38, 2) = 1 THEN 168 ELSE 40)
    ELSE Mandatory(t)

FieldsOf(b, t) ==
    CASE t \in 1..3 -> D123(b) [] t \in {4, 11} -> D4(b) [] t = 5 -> D5(b) [] t = 6 -> D6(b)
      [] t \in {7, 13} -> D7(b) [] t = 8 -> D8(b) [] t = 9 -> D9(b) [] t = 10 -> D10(b)
      [] t = 12 -> D12(b) [] t = 14 -> D14(b) [] t = 15 -> D15(b) [] t = 16 -> D16(b)
      [] t = 17 -> D17(b) [] t = 18 -> D18(b) [] t = 19 -> D19(b) [] t = 20 -> D20(b)
      [] t = 21 -> D21(b) [] t = 24 -> D24(b) [] t = 27 -> D27(b)

ErrorDecode == [class |-> "error", v |-> "none", t |-> 0, fields |-> << >>]

\* caps: [binary, text] capacities of the build (0 = unbounded)
Decode(b) ==
    IF Len(b) = 0 THEN ErrorDecode
    ELSE LET t == Bits(b, 0, 6)
         IN  IF t \notin Supported THEN [ErrorDecode EXCEPT !.t = t]
             ELSE IF 8 * Len(b) < Needed(b, t) THEN [ErrorDecode EXCEPT !.t = t]
             \* (a type 5 message cut anywhere after its mandatory 302 bits is named by C14 - truncated destination,
             \* missing DTE - so every such length must decode, not only the two complete ones)
             ELSE [class |-> IF Len(b) \in LegalBytes(t) \/ (t = 5 /\ Len(b) <= 54) THEN "exact" ELSE "loose",
                   v |-> VariantOf(t), t |-> t, fields |-> FieldsOf(b, t)]

--------------------------------------------------------------------------
(* Comparison of an observed message with the decode. *)

Abs(x) == IF x < 0 THEN -x ELSE x
\* |micro*Q - raw*P| <= Q * (1 + |micro| / 2^21)   (about 4 ulp of f32 plus the projection's rounding)
Close(micro, raw, P, Q) == Abs(micro * Q - raw * P) <= Q * (1 + Abs(micro) \div 2097152)

IsInt(x) == x \in Int

StationCounts(sts) == [i \in 1..Len(sts) |-> Len(sts[i].messages)]
StationShape(sts) == [i \in 1..Len(sts) |-> [j \in 1..Len(sts[i].messages) |-> Len(sts[i].messages[j].slot_offset)]]

\* violations of one field: a set of <<property, field name, what>>
FieldViol(d, obs, known) ==
    LET devOk(pred(_)) == \E i \in 1..Len(d.devs) : d.devs[i].dev \in known /\ pred(d.devs[i])
    IN
    IF d.kind = "eq" \/ d.kind = "opt"
    THEN IF obs \in d.vals THEN {}
         ELSE IF devOk(LAMBDA a : IF "xs" \in DOMAIN a THEN obs \in a.xs ELSE obs = a.x) THEN {}
         ELSE IF d.kind = "opt" /\ (\E x \in d.vals : (Len(x) = 0) # (Len(obs) = 0))
              \* presence of an optional value: the 'not available' rule (C11), or - for an element that is present
              \* or not depending on the message length (type 16 second station) - the element count (C14, C04)
              THEN IF d.prop = "C14" THEN {<<"C14", d.name, "presence">>, <<"C04", d.name, "presence">>}
                   \* a transmitted integer that is not the 'not available' code but is reported as absent is
                   \* also an integer that does not equal what was transmitted (C04)
                   ELSE {<<"C11", d.name, "presence">>}
                        \cup (IF Len(obs) = 0 THEN {<<"C04", d.name, "transmitted value reported as absent">>} ELSE {})
              \* the communication state is made of fixed-position integers (slot parameters): a wrong
              \* value there contradicts C04 as well as C16
              ELSE IF d.prop = "C16" THEN {<<"C16", d.name, "value">>, <<"C04", d.name, "value">>}
              \* type 15: a different number of stations / requests / offsets than the bits present call for is
              \* C14's concern; wrong values in the right structure are C04's
              ELSE IF d.name = "stations"
                   THEN IF StationShape(obs) \in {StationShape(x) : x \in d.vals}
                        THEN {<<"C04", d.name, "value">>}
                        ELSE {<<"C14", d.name, "structure">>, <<"C04", d.name, "structure">>}
                             \* same stations and requests, but a slot offset present / absent the wrong way round:
                             \* the 'offset 0 = not available' rule of C11 is contradicted as well
                             \cup (IF StationCounts(obs) \in {StationCounts(x) : x \in d.vals}
                                   THEN {<<"C11", d.name, "slot offset presence">>} ELSE {})
              \* a truncated text field: the characters present (C14) decoded character by character (C13)
              ELSE IF d.prop = "C13C14" THEN {<<"C13", d.name, "value">>, <<"C14", d.name, "value">>}
              \* a safety text of another length than the characters present: the element count (C14) as well
              ELSE IF d.name = "text" /\ d.prop = "C13" /\ (\A x \in d.vals : Len(x) # Len(obs))
                   THEN {<<"C13", d.name, "value">>, <<"C14", d.name, "length">>}
              \* one-bit enumerations are flags as well (C04)
              ELSE IF d.prop = "C12" /\ d.name \in {"dte", "assigned_mode", "cs_unit", "position_accuracy", "fix_quality",
                                                    "accuracy", "gnss_position_status"}
                   THEN {<<"C12", d.name, "value">>, <<"C04", d.name, "flag value">>}
              ELSE {<<d.prop, d.name, "value">>}
    ELSE IF d.kind = "f"
    THEN IF IsInt(obs) /\ Close(obs, d.raw, d.P, d.Q) THEN {} ELSE {<<"C10", d.name, "value">>}
    ELSE IF d.kind = "optf"
    THEN IF d.absent
         THEN IF obs = << >> THEN {}
              ELSE IF devOk(LAMBDA a : ~a.absent /\ Len(obs) = 1 /\ IsInt(obs[1]) /\ Close(obs[1], d.raw, d.P, d.Q)) THEN {}
              ELSE {<<"C11", d.name, "sentinel reported as present">>}
         ELSE IF obs = << >>
              THEN IF devOk(LAMBDA a : a.absent) THEN {}
                   \* a transmitted value that is not the 'not available' code must be reported (C11) as raw * scale (C10)
                   ELSE {<<"C11", d.name, "value reported as absent">>, <<"C10", d.name, "value reported as absent">>}
              ELSE IF IsInt(obs[1]) /\ Close(obs[1], d.raw, d.P, d.Q) THEN {} ELSE {<<"C10", d.name, "value">>}
    ELSE \* "list"
         \* a wrong number of list entries at a protocol-legal length: C14 (the count) and C04 (an entry's
         \* values are not reported / fabricated)
         IF Len(obs) # Len(d.items) THEN {<<"C14", d.name, "count">>, <<"C04", d.name, "count">>}
         ELSE IF obs = d.items THEN {} ELSE {<<"C04", d.name, "value">>}

\* list fields at non-legal lengths: a non-empty prefix is acceptable
FieldViolLoose(d, obs, known) ==
    IF d.kind = "list"
    THEN IF Len(obs) >= 1 /\ Len(obs) <= Len(d.items) /\ obs = SubSeq(d.items, 1, Len(obs)) THEN {}
         ELSE {<<"C14", d.name, "elements">>}
    ELSE FieldViol(d, obs, known)

\* which deviations were needed to accept the observation (for KNOWN-FINDING reporting)
FieldDevUsed(d, obs, known) ==
    IF d.devs = << >> THEN {}
    ELSE IF FieldViol(d, obs, {}) = {} THEN {}
    ELSE IF FieldViol(d, obs, known) = {} THEN {d.devs[i].dev : i \in 1..Len(d.devs)} \cap known
    ELSE {}

\* obs: the recorded message [v, f];  dm: Decode(b) with class # "error"
MsgViolOf(dm, obs, known) ==
    LET names == {dm.fields[i].name : i \in 1..Len(dm.fields)}
        shape == IF DOMAIN obs.f = names THEN {} ELSE {<<"C04", "fields", "field set differs">>}
        variant == IF obs.v = dm.v THEN {} ELSE {<<"C09", "variant", obs.v>>}
    IN  IF variant # {} THEN variant
        ELSE IF shape # {} THEN shape
        ELSE UNION {IF dm.class = "loose" THEN FieldViolLoose(dm.fields[i], obs.f[dm.fields[i].name], known)
                                          ELSE FieldViol(dm.fields[i], obs.f[dm.fields[i].name], known)
                    : i \in 1..Len(dm.fields)}
MsgDevUsed(dm, obs, known) ==
    IF obs.v # dm.v \/ DOMAIN obs.f # {dm.fields[i].name : i \in 1..Len(dm.fields)} THEN {}
    ELSE UNION {FieldDevUsed(dm.fields[i], obs.f[dm.fields[i].name], known) : i \in 1..Len(dm.fields)}

\* capacities of the no-allocator build: a message whose binary data exceeds 119 bytes or
\* whose text exceeds 20 characters may be rejected there (C18); binCap/textCap = 0: unbounded
OverCapacity(dm, binCap, textCap) ==
    \E i \in 1..Len(dm.fields) :
        LET d == dm.fields[i]
        IN  \/ binCap > 0 /\ d.name \in {"data", "p_data"} /\ \E x \in d.vals : Len(x) > binCap
            \/ FALSE
\* raw (untrimmed) text length matters for the fixed buffers: characters present, not trimmed length
TextCharsOf(b, t) == IF t = 12 THEN TextChars(b, 72) ELSE IF t = 14 THEN TextChars(b, 40) ELSE 0
=============================================================================
