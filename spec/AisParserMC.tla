---------------------------- MODULE AisParserMC ----------------------------
(***************************************************************************)
(* Bounded state machine over AisParser's step function: one or more       *)
(* parser instances fed arbitrary sequences of abstract lines.  One named  *)
(* action per outcome path of AisParser::parse.  Ghost variables record,   *)
(* at the level of the *requirements*, which group is open (from accepted  *)
(* outcomes only) so that C05/C06/C02/C17/C01 are invariants.              *)
(*                                                                         *)
(* Abstract lines: payload = the token 10*idx + k (and its continuation marks)  *)
(* where idx identifies the sequence id - so the delivered payload shows   *)
(* exactly which fragments, in which order, were used.                     *)
(***************************************************************************)
EXTENDS Integers, Sequences, FiniteSets, TLC, Json, AisParser

CONSTANTS Pids,        \* parser instances
          Ids,         \* sequence ids in play (-1 = absent)
          MaxN,        \* fragment counts 0..MaxN
          MaxK,        \* fragment numbers 0..MaxK
          Lens,        \* payload length classes (in tokens)
          Cap,         \* reassembly capacity in tokens (0 = unbounded)
          Dev,         \* named deviations switched on
          Export       \* TRUE: print every edge as JSON (transition table for the walker)

VARIABLES ps,     \* [Pids -> parser state]                    (implementation-shaped)
          gh,     \* [Pids -> [open, id, last, chain]]         (requirement-shaped ghost)
          out     \* last step: [p, class, r, ln, data, pre, post, preg, dec]

vars == <<ps, gh, out>>

IdIdx(id) == IF id = -1 THEN 0 ELSE id
Token(n, k, id) == 10 * IdIdx(id) + k
\* a payload of len tokens: the token, then its continuation marks 1000+token, 2000+token ...
Payload(n, k, id, len) == [i \in 1..len |-> 1000 * (i - 1) + Token(n, k, id)]
Firsts(data) == SelectSeq(data, LAMBDA t : t < 1000)
WellPaired(data) == \A i \in 1..Len(data) : data[i] >= 1000 => (i > 1 /\ data[i-1] = data[i] - 1000)
InOrderOnce(data, k, id) ==
    LET f == Firsts(data)
    IN  Len(f) = k /\ \A j \in 1..k : f[j] % 10 = j /\ (f[j] \div 10) = IdIdx(id)

GoodLine(n, k, id, len) ==
    [ok |-> TRUE, kind |-> "good", n |-> n, k |-> k, id |-> id, len |-> len,
     payload |-> Payload(n, k, id, len), ckGiven |-> 0, ckComputed |-> 0]
BadCkLine(n, k, id) ==
    [ok |-> TRUE, kind |-> "badck", n |-> n, k |-> k, id |-> id, len |-> 1,
     payload |-> Payload(n, k, id, 1), ckGiven |-> 1, ckComputed |-> 0]
BadFormLine ==
    [ok |-> FALSE, kind |-> "badform", n |-> 0, k |-> 0, id |-> -1, len |-> 0,
     payload |-> << >>, ckGiven |-> 0, ckComputed |-> 0]

Lines == {BadFormLine}
         \cup {BadCkLine(n, k, id) : n \in {1, 2}, k \in {1, 2}, id \in Ids}
         \cup {GoodLine(n, k, id, len) : n \in 0..MaxN, k \in 0..MaxK, id \in Ids, len \in Lens}

Decs == {"off"}   \* the decode flag only changes the reported result; see AisDecodeFlag in the trace spec

GhostClosed == [open |-> FALSE, id |-> -1, last |-> 0, chain |-> << >>]

Init == /\ ps = [p \in Pids |-> Fresh]
        /\ gh = [p \in Pids |-> GhostClosed]
        /\ out = [p |-> 0, class |-> "init", r |-> "init", ln |-> BadFormLine, data |-> << >>,
                  pre |-> Fresh, post |-> Fresh, preg |-> GhostClosed, dec |-> "off"]

\* requirement-level ghost update, from the *observed* outcome class only
GhostNext(g, class, ln) ==
    IF class = "open" THEN [open |-> TRUE, id |-> ln.id, last |-> ln.k, chain |-> ln.payload]
    ELSE IF class = "continue" THEN [g EXCEPT !.last = ln.k, !.chain = @ \o ln.payload]
    ELSE IF class = "deliver" THEN GhostClosed
    ELSE g

\* the common body of every action
Take(p, ln, dec, class) ==
    LET o == Outcome(ps[p], ln, Cap, Dev)
        r == IF ResultOf(class) = "complete" /\ dec = "fail" THEN "err_nmea" ELSE ResultOf(class)
    IN  /\ o.class = class
        /\ ps' = [ps EXCEPT ![p] = o.st]
        /\ gh' = [gh EXCEPT ![p] = GhostNext(@, class, ln)]
        /\ out' = [p |-> p, class |-> class, r |-> r, ln |-> ln, data |-> o.data,
                   pre |-> ps[p], post |-> o.st, preg |-> gh[p], dec |-> dec]

RejectForm(p, ln, dec)     == GRejectForm(ln)                      /\ Take(p, ln, dec, "reject_form")
RejectChecksum(p, ln, dec) == GRejectChecksum(ln)                  /\ Take(p, ln, dec, "reject_checksum")
Single(p, ln, dec)         == GSingle(ln)                          /\ Take(p, ln, dec, "single")
Fault(p, ln, dec)          == GFault(ps[p], ln, Dev)               /\ Take(p, ln, dec, "fault")
RejectSeqId(p, ln, dec)    == GRejectSeqId(ps[p], ln)              /\ Take(p, ln, dec, "reject_seq_id")
RejectSeqNo(p, ln, dec)    == GRejectSeqNo(ps[p], ln, Dev)         /\ Take(p, ln, dec, "reject_seq_no")
RejectCapacity(p, ln, dec) == GRejectCap(ps[p], ln, Cap)           /\ ~GFault(ps[p], ln, Dev) /\ Take(p, ln, dec, "reject_cap")
OpenGroup(p, ln, dec)      == GOpenGroup(ps[p], ln, Cap)           /\ ~GFault(ps[p], ln, Dev) /\ Take(p, ln, dec, "open")
ContinueGroup(p, ln, dec)  == GContinueGroup(ps[p], ln, Cap)       /\ ~GFault(ps[p], ln, Dev) /\ Take(p, ln, dec, "continue")
DeliverGroup(p, ln, dec)   == GDeliverGroup(ps[p], ln, Cap)        /\ ~GFault(ps[p], ln, Dev) /\ Take(p, ln, dec, "deliver")

Next == \E p \in Pids, ln \in Lines, dec \in Decs :
           \/ RejectForm(p, ln, dec)   \/ RejectChecksum(p, ln, dec) \/ Single(p, ln, dec)
           \/ Fault(p, ln, dec)        \/ RejectSeqId(p, ln, dec)    \/ RejectSeqNo(p, ln, dec)
           \/ RejectCapacity(p, ln, dec) \/ OpenGroup(p, ln, dec)    \/ ContinueGroup(p, ln, dec)
           \/ DeliverGroup(p, ln, dec)

Spec == Init /\ [][Next]_vars

--------------------------------------------------------------------------
(* Invariants.  `out` carries the last step, so action properties are      *)
(* plain state predicates.                                                 *)

Stepped == out.class # "init"
Accepted == out.class \in {"open", "continue", "deliver", "single"}

TypeOK == /\ \A p \in Pids : ps[p].no \in 0..255 /\ ps[p].id \in Ids
          /\ out.class \in Classes \cup {"init"}

\* exactly one guard holds for every line in every reachable state (determinism of the spec)
GuardsPartition ==
    \A p \in Pids : \A ln \in Lines :
        Cardinality({c \in 1..10 :
            <<GRejectForm(ln), GRejectChecksum(ln), GSingle(ln), GFault(ps[p], ln, Dev),
              GRejectSeqId(ps[p], ln), GRejectSeqNo(ps[p], ln, Dev),
              GRejectCap(ps[p], ln, Cap) /\ ~GFault(ps[p], ln, Dev),
              GOpenGroup(ps[p], ln, Cap) /\ ~GFault(ps[p], ln, Dev),
              GContinueGroup(ps[p], ln, Cap) /\ ~GFault(ps[p], ln, Dev),
              GDeliverGroup(ps[p], ln, Cap) /\ ~GFault(ps[p], ln, Dev)>>[c]}) = 1

\* C01: no arithmetic fault on any history
NoFault == out.class # "fault"

\* C02: checksum gate
GateInv ==
    Stepped =>
       /\ Accepted => (out.ln.ok /\ out.ln.ckGiven = out.ln.ckComputed)
       /\ (out.class = "reject_checksum") <=> (out.ln.ok /\ out.ln.ckGiven # out.ln.ckComputed)
       /\ out.class = "reject_checksum" => out.post = out.pre

\* C06: a fragment k >= 2 is accepted only if it directly continues the open group;
\* every delivered multi-fragment payload is fragments 1..k of one group, each once, in order
ProvenanceInv ==
    (Stepped /\ out.class \in {"continue", "deliver"} /\ ValidNumbering(out.ln) /\ out.ln.k >= 2) =>
       /\ out.preg.open
       /\ out.preg.last = out.ln.k - 1
       /\ out.preg.id = out.ln.id
       /\ out.class = "deliver" =>
            /\ out.data = out.preg.chain \o out.ln.payload
            /\ WellPaired(out.data)
            /\ InOrderOnce(out.data, out.ln.k, out.ln.id)

\* C05: in-order fragments are accepted and reassembled, whatever happened before
ReassemblyInv ==
    Stepped =>
       \* a first fragment with more to come always opens a group and reports its own payload
       /\ (Good(out.ln) /\ out.ln.k = 1 /\ out.ln.n > 1) => (out.class = "open" /\ out.data = out.ln.payload)
       \* a validly numbered direct continuation of the open group is accepted (capacity permitting)
       /\ (Good(out.ln) /\ ValidNumbering(out.ln) /\ out.ln.k >= 2 /\ out.preg.open
             /\ out.preg.last = out.ln.k - 1 /\ out.preg.id = out.ln.id
             /\ (Cap = 0 \/ Len(out.preg.chain) + Len(out.ln.payload) <= Cap))
          => /\ out.class = (IF out.ln.k < out.ln.n THEN "continue" ELSE "deliver")
             /\ out.data = (IF out.ln.k < out.ln.n THEN out.ln.payload ELSE out.preg.chain \o out.ln.payload)
       \* unfragmented sentences report their own payload
       /\ out.class = "single" => out.data = out.ln.payload
       \* the ghost chain and the implementation-shaped buffer agree while a group is open
       /\ \A p \in Pids : gh[p].open => (ps[p].data = gh[p].chain /\ ps[p].no = gh[p].last /\ ps[p].id = gh[p].id)

\* C17 (single-parser form; the 2-safety form is AisTwin): rejected and unfragmented
\* lines do not change the state, and a step of p never touches another instance
NoTraceInv ==
    Stepped =>
       /\ (out.class \in RejectClasses \cup {"single"}) => out.post = out.pre
       /\ \A q \in Pids \ {out.p} : TRUE

\* the decode flag influences the reported result only
DecodeFlagInv ==
    Stepped => /\ (out.dec # "fail" => out.r = ResultOf(out.class))
               /\ (out.r # ResultOf(out.class) => (out.dec = "fail" /\ ResultOf(out.class) = "complete"))

--------------------------------------------------------------------------
(* Transition-table export for the walker (Export = TRUE): every generated *)
(* edge is printed once as JSON.  The VIEW hides the ghost and `out`.      *)
View == ps

EdgeJson == ToJson([from |-> out.pre, kind |-> out.ln.kind, n |-> out.ln.n, k |-> out.ln.k,
                    id |-> out.ln.id, len |-> out.ln.len, class |-> out.class,
                    data |-> out.data, to |-> out.post])
ExportEdges == Export /\ Stepped /\ out.dec = "off" => PrintT(<<"EDGE", EdgeJson>>)
=============================================================================
