CONSTANT ArmorDev = {"unarmor_empty_fill"}
SPECIFICATION Spec
INVARIANT ArmorInv
CHECK_DEADLOCK FALSE
