----------------------------- MODULE MC_Twin -----------------------------
EXTENDS AisTwin
MCIds == {-1, 1, 2}
NoDev == {}
DevFragno == {"noalloc_fragno_before_extend"}
=============================================================================
