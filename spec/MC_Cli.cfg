CONSTANTS
  Ids <- MCIds
  MaxN = 2
  MaxLines = 4
  CliDev <- NoDev
SPECIFICATION Spec
INVARIANT CliSafety
PROPERTY CliTerminates
CHECK_DEADLOCK FALSE
