INIT Init
NEXT Next
