---------------------------- MODULE ExportTables ----------------------------
(* Prints the layout / threshold / sentinel tables of the specification as   *)
(* JSON, for the table-driven scenario generators (DESIGN 4.4).  The         *)
(* generators take widths, offsets, lengths and sentinels from here and      *)
(* from nowhere else.                                                        *)
EXTENDS Integers, Sequences, TLC, Json, AisLayouts, AisDecode

Tables ==
    [ itu |-> [ t123 |-> Itu123, t4 |-> Itu4, t5 |-> Itu5, t6 |-> Itu6, t7 |-> Itu7, t8 |-> Itu8,
                t9 |-> Itu9, t10 |-> Itu10, t12 |-> Itu12, t14 |-> Itu14, t15 |-> Itu15,
                t16 |-> Itu16, t17 |-> Itu17, t18 |-> Itu18, t19 |-> Itu19, t20 |-> Itu20,
                t21 |-> Itu21, t24 |-> Itu24, t27 |-> Itu27 ],
      code |-> [ t123 |-> Code123, t4 |-> Code4, t5 |-> Code5, t6 |-> Code6, t7 |-> Code7, t8 |-> Code8,
                 t9 |-> Code9, t10 |-> Code10, t12 |-> Code12, t14 |-> Code14, t15 |-> Code15,
                 t16 |-> Code16, t17 |-> Code17, t18 |-> Code18, t19 |-> Code19, t20 |-> Code20,
                 t21 |-> Code21, t24a |-> Code24A, t24b |-> Code24B, t27 |-> Code27 ],
      lengths |-> [t \in Supported |-> ItuLengths[t]],
      mandatory |-> [t \in 0..63 |-> Mandatory(t)],
      legalbytes |-> [t \in Supported |-> LegalBytes(t)],
      supported |-> Supported,
      variants |-> [t \in Supported |-> VariantOf(t)],
      sentinels |-> [lon28 |-> Lon28NA, lat27 |-> Lat27NA, lon18 |-> Lon18NA, lat17 |-> Lat17NA] ]

ASSUME PrintT(<<"TABLES", ToJson(Tables)>>)
VARIABLE x
Init == x = 0
Next == x' = x
=============================================================================
