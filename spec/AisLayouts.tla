----------------------------- MODULE AisLayouts -----------------------------
(***************************************************************************)
(* Bit layouts of the 21 supported message types (properties C04, C14).    *)
(*                                                                         *)
(*   Itu*   requirement-shaped: absolute bit offset and width of every     *)
(*          field, transcribed from ITU-R M.1371-5 Annex 8 (tables 48-79), *)
(*          as records  field |-> <<offset, width>>.                       *)
(*   Code*  implementation-shaped: the sequence of take_bits(width) calls  *)
(*          of each parse_base / parse_message, in code order, with the    *)
(*          width of the Rust output type (for the shift-overflow check    *)
(*          of C01).  <<name, width, outBits>> ; spares are named "_...".  *)
(* MC_Layouts checks: cumulative code widths = ITU offsets for every named *)
(* field, totals = ITU message lengths, every take is fault-free at its    *)
(* static bit offset.                                                      *)
(***************************************************************************)
EXTENDS Integers, Sequences

\* common header
\*   message_type 0-5, repeat_indicator 6-7, mmsi 8-37

\* ---- types 1, 2, 3: position report, 168 bits (table 48)
Itu123 == [ message_type |-> <<0, 6>>, repeat_indicator |-> <<6, 2>>, mmsi |-> <<8, 30>>,
            navigation_status |-> <<38, 4>>, rate_of_turn |-> <<42, 8>>,
            speed_over_ground |-> <<50, 10>>, position_accuracy |-> <<60, 1>>,
            longitude |-> <<61, 28>>, latitude |-> <<89, 27>>, course_over_ground |-> <<116, 12>>,
            true_heading |-> <<128, 9>>, timestamp |-> <<137, 6>>, maneuver_indicator |-> <<143, 2>>,
            raim |-> <<148, 1>>, radio_status |-> <<149, 19>> ]
Code123 == << <<"message_type", 6, 8>>, <<"repeat_indicator", 2, 8>>, <<"mmsi", 30, 32>>,
              <<"navigation_status", 4, 8>>, <<"rate_of_turn", 8, 8>>, <<"speed_over_ground", 10, 16>>,
              <<"position_accuracy", 1, 8>>, <<"longitude", 28, 32>>, <<"latitude", 27, 32>>,
              <<"course_over_ground", 12, 16>>, <<"true_heading", 9, 16>>, <<"timestamp", 6, 8>>,
              <<"maneuver_indicator", 2, 8>>, <<"_spare", 3, 8>>, <<"raim", 1, 8>>,
              <<"radio_status", 19, 32>> >>

\* ---- types 4, 11: base station report / UTC response, 168 bits (table 51)
Itu4 == [ message_type |-> <<0, 6>>, repeat_indicator |-> <<6, 2>>, mmsi |-> <<8, 30>>,
          year |-> <<38, 14>>, month |-> <<52, 4>>, day |-> <<56, 5>>, hour |-> <<61, 5>>,
          minute |-> <<66, 6>>, second |-> <<72, 6>>, fix_quality |-> <<78, 1>>,
          longitude |-> <<79, 28>>, latitude |-> <<107, 27>>, epfd_type |-> <<134, 4>>,
          raim |-> <<148, 1>>, radio_status |-> <<149, 19>> ]
Code4 == << <<"message_type", 6, 8>>, <<"repeat_indicator", 2, 8>>, <<"mmsi", 30, 32>>,
            <<"year", 14, 16>>, <<"month", 4, 8>>, <<"day", 5, 8>>, <<"hour", 5, 8>>,
            <<"minute", 6, 8>>, <<"second", 6, 8>>, <<"fix_quality", 1, 8>>,
            <<"longitude", 28, 32>>, <<"latitude", 27, 32>>, <<"epfd_type", 4, 8>>,
            <<"_spare", 10, 8>>, <<"raim", 1, 8>>, <<"radio_status", 19, 32>> >>

\* ---- type 5: static and voyage related data, 424 bits (table 52)
Itu5 == [ message_type |-> <<0, 6>>, repeat_indicator |-> <<6, 2>>, mmsi |-> <<8, 30>>,
          ais_version |-> <<38, 2>>, imo_number |-> <<40, 30>>, callsign |-> <<70, 42>>,
          vessel_name |-> <<112, 120>>, ship_type |-> <<232, 8>>,
          dimension_to_bow |-> <<240, 9>>, dimension_to_stern |-> <<249, 9>>,
          dimension_to_port |-> <<258, 6>>, dimension_to_starboard |-> <<264, 6>>,
          epfd_type |-> <<270, 4>>, eta_month_utc |-> <<274, 4>>, eta_day_utc |-> <<278, 5>>,
          eta_hour_utc |-> <<283, 5>>, eta_minute_utc |-> <<288, 6>>, draught |-> <<294, 8>>,
          destination |-> <<302, 120>>, dte |-> <<422, 1>> ]
Code5 == << <<"message_type", 6, 8>>, <<"repeat_indicator", 2, 8>>, <<"mmsi", 30, 32>>,
            <<"ais_version", 2, 8>>, <<"imo_number", 30, 32>>, <<"callsign", 42, 0>>,
            <<"vessel_name", 120, 0>>, <<"ship_type", 8, 8>>, <<"dimension_to_bow", 9, 16>>,
            <<"dimension_to_stern", 9, 16>>, <<"dimension_to_port", 6, 16>>,
            <<"dimension_to_starboard", 6, 16>>, <<"epfd_type", 4, 8>>, <<"eta_month_utc", 4, 8>>,
            <<"eta_day_utc", 5, 8>>, <<"eta_hour_utc", 5, 8>>, <<"eta_minute_utc", 6, 8>>,
            <<"draught", 8, 8>>, <<"destination", 120, 0>>, <<"dte", 1, 8>>, <<"_spare", 1, 8>> >>

\* ---- type 6: binary addressed message, 88 + up to 920 bits (table 54)
Itu6 == [ message_type |-> <<0, 6>>, repeat_indicator |-> <<6, 2>>, mmsi |-> <<8, 30>>,
          seqno |-> <<38, 2>>, dest_mmsi |-> <<40, 30>>, retransmit |-> <<70, 1>>,
          dac |-> <<72, 10>>, fid |-> <<82, 6>>, data |-> <<88, 0>> ]
Code6 == << <<"message_type", 6, 8>>, <<"repeat_indicator", 2, 8>>, <<"mmsi", 30, 32>>,
            <<"seqno", 2, 8>>, <<"dest_mmsi", 30, 32>>, <<"retransmit", 1, 8>>, <<"_spare", 1, 8>>,
            <<"dac", 10, 16>>, <<"fid", 6, 8>>, <<"data", 0, 0>> >>

\* ---- types 7, 13: binary / safety acknowledge, 72..168 bits (table 56)
Itu7 == [ message_type |-> <<0, 6>>, repeat_indicator |-> <<6, 2>>, mmsi |-> <<8, 30>>,
          acks |-> <<40, 32>> ]       \* entry i (1..4) at 40 + 32 (i-1): mmsi 30, seq 2
Code7 == << <<"message_type", 6, 8>>, <<"repeat_indicator", 2, 8>>, <<"mmsi", 30, 32>>,
            <<"_spare", 2, 8>>, <<"acks", 0, 0>> >>
Code7Entry == << <<"mmsi", 30, 32>>, <<"seq_num", 2, 8>> >>

\* ---- type 8: binary broadcast message, 56 + up to 952 bits (table 57)
Itu8 == [ message_type |-> <<0, 6>>, repeat_indicator |-> <<6, 2>>, mmsi |-> <<8, 30>>,
          dac |-> <<40, 10>>, fid |-> <<50, 6>>, data |-> <<56, 0>> ]
Code8 == << <<"message_type", 6, 8>>, <<"repeat_indicator", 2, 8>>, <<"mmsi", 30, 32>>,
            <<"_spare", 2, 8>>, <<"dac", 10, 16>>, <<"fid", 6, 8>>, <<"data", 0, 0>> >>

\* ---- type 9: standard SAR aircraft position report, 168 bits (table 58)
Itu9 == [ message_type |-> <<0, 6>>, repeat_indicator |-> <<6, 2>>, mmsi |-> <<8, 30>>,
          altitude |-> <<38, 12>>, speed_over_ground |-> <<50, 10>>, position_accuracy |-> <<60, 1>>,
          longitude |-> <<61, 28>>, latitude |-> <<89, 27>>, course_over_ground |-> <<116, 12>>,
          timestamp |-> <<128, 6>>, dte |-> <<142, 1>>, assigned_mode |-> <<146, 1>>,
          raim |-> <<147, 1>>, selector |-> <<148, 1>>, radio_status |-> <<149, 19>> ]
\* as built the selector is not consumed: the 19-bit state is read from bit 148 (deviation type9_no_selector)
Code9 == << <<"message_type", 6, 8>>, <<"repeat_indicator", 2, 8>>, <<"mmsi", 30, 32>>,
            <<"altitude", 12, 16>>, <<"speed_over_ground", 10, 16>>, <<"position_accuracy", 1, 8>>,
            <<"longitude", 28, 32>>, <<"latitude", 27, 32>>, <<"course_over_ground", 12, 16>>,
            <<"timestamp", 6, 8>>, <<"_regional", 8, 8>>, <<"dte", 1, 8>>, <<"_spare", 3, 8>>,
            <<"assigned_mode", 1, 8>>, <<"raim", 1, 8>>, <<"selector", 1, 8>>,
            <<"radio_status", 19, 32>> >>

\* ---- type 10: UTC and date inquiry, 72 bits (table 59)
Itu10 == [ message_type |-> <<0, 6>>, repeat_indicator |-> <<6, 2>>, mmsi |-> <<8, 30>>,
           dest_mmsi |-> <<40, 30>> ]
Code10 == << <<"message_type", 6, 8>>, <<"repeat_indicator", 2, 8>>, <<"mmsi", 30, 32>>,
             <<"_spare1", 2, 8>>, <<"dest_mmsi", 30, 32>>, <<"_spare2", 2, 8>> >>

\* ---- type 12: addressed safety related message, 72 + up to 936 bits (table 60)
Itu12 == [ message_type |-> <<0, 6>>, repeat_indicator |-> <<6, 2>>, mmsi |-> <<8, 30>>,
           seqno |-> <<38, 2>>, dest_mmsi |-> <<40, 30>>, retransmit |-> <<70, 1>>,
           text |-> <<72, 0>> ]
Code12 == << <<"message_type", 6, 8>>, <<"repeat_indicator", 2, 8>>, <<"mmsi", 30, 32>>,
             <<"seqno", 2, 8>>, <<"dest_mmsi", 30, 32>>, <<"retransmit", 1, 8>>, <<"_spare", 1, 8>>,
             <<"text", 0, 0>> >>

\* ---- type 14: safety related broadcast message, 40 + up to 968 bits (table 62)
Itu14 == [ message_type |-> <<0, 6>>, repeat_indicator |-> <<6, 2>>, mmsi |-> <<8, 30>>,
           text |-> <<40, 0>> ]
Code14 == << <<"message_type", 6, 8>>, <<"repeat_indicator", 2, 8>>, <<"mmsi", 30, 32>>,
             <<"_spare", 2, 8>>, <<"text", 0, 0>> >>

\* ---- type 15: interrogation, 88..160 bits (table 63)
Itu15 == [ message_type |-> <<0, 6>>, repeat_indicator |-> <<6, 2>>, mmsi |-> <<8, 30>>,
           mmsi1 |-> <<40, 30>>, type1_1 |-> <<70, 6>>, offset1_1 |-> <<76, 12>>,
           type1_2 |-> <<90, 6>>, offset1_2 |-> <<96, 12>>,
           mmsi2 |-> <<110, 30>>, type2_1 |-> <<140, 6>>, offset2_1 |-> <<146, 12>> ]
\* code order for the longest form (as repaired: the 2 spare bits precede the second station)
Code15 == << <<"message_type", 6, 8>>, <<"repeat_indicator", 2, 8>>, <<"mmsi", 30, 32>>,
             <<"_spare", 2, 8>>, <<"mmsi1", 30, 32>>, <<"type1_1", 6, 8>>, <<"offset1_1", 12, 16>>,
             <<"_spare2", 2, 8>>, <<"type1_2", 6, 8>>, <<"offset1_2", 12, 16>>,
             <<"_spare3", 2, 8>>, <<"mmsi2", 30, 32>>, <<"type2_1", 6, 8>>, <<"offset2_1", 12, 16>>,
             <<"_spare4", 2, 8>> >>

\* ---- type 16: assigned mode command, 96 or 144 bits (table 65)
Itu16 == [ message_type |-> <<0, 6>>, repeat_indicator |-> <<6, 2>>, mmsi |-> <<8, 30>>,
           mmsi1 |-> <<40, 30>>, offset1 |-> <<70, 12>>, increment1 |-> <<82, 10>>,
           mmsi2 |-> <<92, 30>>, offset2 |-> <<122, 12>>, increment2 |-> <<134, 10>> ]
Code16 == << <<"message_type", 6, 8>>, <<"repeat_indicator", 2, 8>>, <<"mmsi", 30, 32>>,
             <<"_spare", 2, 8>>, <<"mmsi1", 30, 32>>, <<"offset1", 12, 16>>, <<"increment1", 10, 16>>,
             <<"mmsi2", 30, 32>>, <<"offset2", 12, 16>>, <<"increment2", 10, 16>> >>

\* ---- type 17: DGNSS broadcast binary message, 80..816 bits (tables 66, 67)
Itu17 == [ message_type |-> <<0, 6>>, repeat_indicator |-> <<6, 2>>, mmsi |-> <<8, 30>>,
           longitude |-> <<40, 18>>, latitude |-> <<58, 17>>,
           p_message_type |-> <<80, 6>>, p_station_id |-> <<86, 10>>, p_z_count |-> <<96, 13>>,
           p_sequence_number |-> <<109, 3>>, p_n |-> <<112, 5>>, p_health |-> <<117, 3>>,
           p_data |-> <<120, 0>> ]
Code17 == << <<"message_type", 6, 8>>, <<"repeat_indicator", 2, 8>>, <<"mmsi", 30, 32>>,
             <<"_spare", 2, 8>>, <<"longitude", 18, 32>>, <<"latitude", 17, 32>>, <<"_spare2", 5, 8>>,
             <<"p_message_type", 6, 8>>, <<"p_station_id", 10, 16>>, <<"p_z_count", 13, 16>>,
             <<"p_sequence_number", 3, 8>>, <<"p_n", 5, 8>>, <<"p_health", 3, 8>>,
             <<"p_data", 0, 0>> >>

\* ---- type 18: standard class B position report, 168 bits (table 68)
Itu18 == [ message_type |-> <<0, 6>>, repeat_indicator |-> <<6, 2>>, mmsi |-> <<8, 30>>,
           speed_over_ground |-> <<46, 10>>, position_accuracy |-> <<56, 1>>,
           longitude |-> <<57, 28>>, latitude |-> <<85, 27>>, course_over_ground |-> <<112, 12>>,
           true_heading |-> <<124, 9>>, timestamp |-> <<133, 6>>, cs_unit |-> <<141, 1>>,
           has_display |-> <<142, 1>>, has_dsc |-> <<143, 1>>, whole_band |-> <<144, 1>>,
           accepts_message_22 |-> <<145, 1>>, assigned_mode |-> <<146, 1>>, raim |-> <<147, 1>>,
           selector |-> <<148, 1>>, radio_status |-> <<149, 19>> ]
Code18 == << <<"message_type", 6, 8>>, <<"repeat_indicator", 2, 8>>, <<"mmsi", 30, 32>>,
             <<"_regional", 8, 8>>, <<"speed_over_ground", 10, 16>>, <<"position_accuracy", 1, 8>>,
             <<"longitude", 28, 32>>, <<"latitude", 27, 32>>, <<"course_over_ground", 12, 16>>,
             <<"true_heading", 9, 16>>, <<"timestamp", 6, 8>>, <<"_regional2", 2, 8>>,
             <<"cs_unit", 1, 8>>, <<"has_display", 1, 8>>, <<"has_dsc", 1, 8>>, <<"whole_band", 1, 8>>,
             <<"accepts_message_22", 1, 8>>, <<"assigned_mode", 1, 8>>, <<"raim", 1, 8>>,
             <<"selector", 1, 8>>, <<"radio_status", 19, 32>> >>

\* ---- type 19: extended class B position report, 312 bits (table 69)
Itu19 == [ message_type |-> <<0, 6>>, repeat_indicator |-> <<6, 2>>, mmsi |-> <<8, 30>>,
           speed_over_ground |-> <<46, 10>>, position_accuracy |-> <<56, 1>>,
           longitude |-> <<57, 28>>, latitude |-> <<85, 27>>, course_over_ground |-> <<112, 12>>,
           true_heading |-> <<124, 9>>, timestamp |-> <<133, 6>>, name |-> <<143, 120>>,
           type_of_ship_and_cargo |-> <<263, 8>>, dimension_to_bow |-> <<271, 9>>,
           dimension_to_stern |-> <<280, 9>>, dimension_to_port |-> <<289, 6>>,
           dimension_to_starboard |-> <<295, 6>>, epfd_type |-> <<301, 4>>, raim |-> <<305, 1>>,
           dte |-> <<306, 1>>, assigned_mode |-> <<307, 1>> ]
Code19 == << <<"message_type", 6, 8>>, <<"repeat_indicator", 2, 8>>, <<"mmsi", 30, 32>>,
             <<"_regional", 8, 8>>, <<"speed_over_ground", 10, 16>>, <<"position_accuracy", 1, 8>>,
             <<"longitude", 28, 32>>, <<"latitude", 27, 32>>, <<"course_over_ground", 12, 16>>,
             <<"true_heading", 9, 16>>, <<"timestamp", 6, 8>>, <<"_regional2", 4, 8>>,
             <<"name", 120, 0>>, <<"type_of_ship_and_cargo", 8, 8>>, <<"dimension_to_bow", 9, 16>>,
             <<"dimension_to_stern", 9, 16>>, <<"dimension_to_port", 6, 16>>,
             <<"dimension_to_starboard", 6, 16>>, <<"epfd_type", 4, 8>>, <<"raim", 1, 8>>,
             <<"dte", 1, 8>>, <<"assigned_mode", 1, 8>>, <<"_spare", 4, 8>> >>

\* ---- type 20: data link management message, 72..160 bits (table 70)
Itu20 == [ message_type |-> <<0, 6>>, repeat_indicator |-> <<6, 2>>, mmsi |-> <<8, 30>>,
           reservations |-> <<40, 30>> ]  \* entry i at 40 + 30 (i-1): offset 12, num_slots 4, timeout 3, increment 11
Code20 == << <<"message_type", 6, 8>>, <<"repeat_indicator", 2, 8>>, <<"mmsi", 30, 32>>,
             <<"_spare", 2, 8>>, <<"reservations", 0, 0>> >>
Code20Entry == << <<"offset", 12, 16>>, <<"num_slots", 4, 8>>, <<"timeout", 3, 8>>, <<"increment", 11, 16>> >>

\* ---- type 21: aid-to-navigation report, 272..360 bits (table 71)
Itu21 == [ message_type |-> <<0, 6>>, repeat_indicator |-> <<6, 2>>, mmsi |-> <<8, 30>>,
           aid_type |-> <<38, 5>>, name |-> <<43, 120>>, accuracy |-> <<163, 1>>,
           longitude |-> <<164, 28>>, latitude |-> <<192, 27>>, dimension_to_bow |-> <<219, 9>>,
           dimension_to_stern |-> <<228, 9>>, dimension_to_port |-> <<237, 6>>,
           dimension_to_starboard |-> <<243, 6>>, epfd_type |-> <<249, 4>>, utc_second |-> <<253, 6>>,
           off_position |-> <<259, 1>>, regional_reserved |-> <<260, 8>>, raim |-> <<268, 1>>,
           virtual_aid |-> <<269, 1>>, assigned_mode |-> <<270, 1>> ]
Code21 == << <<"message_type", 6, 8>>, <<"repeat_indicator", 2, 8>>, <<"mmsi", 30, 32>>,
             <<"aid_type", 5, 8>>, <<"name", 120, 0>>, <<"accuracy", 1, 8>>, <<"longitude", 28, 32>>,
             <<"latitude", 27, 32>>, <<"dimension_to_bow", 9, 16>>, <<"dimension_to_stern", 9, 16>>,
             <<"dimension_to_port", 6, 16>>, <<"dimension_to_starboard", 6, 16>>, <<"epfd_type", 4, 8>>,
             <<"utc_second", 6, 8>>, <<"off_position", 1, 8>>, <<"regional_reserved", 8, 8>>,
             <<"raim", 1, 8>>, <<"virtual_aid", 1, 8>>, <<"assigned_mode", 1, 8>>, <<"_spare", 1, 8>> >>

\* ---- type 24: static data report, part A 160/168 bits, part B 168 bits (tables 74-76)
Itu24 == [ message_type |-> <<0, 6>>, repeat_indicator |-> <<6, 2>>, mmsi |-> <<8, 30>>,
           part_number |-> <<38, 2>>, vessel_name |-> <<40, 120>>,
           ship_type |-> <<40, 8>>, vendor_id |-> <<48, 18>>, model_serial |-> <<66, 24>>,
           unit_model_code |-> <<66, 4>>, serial_number |-> <<70, 20>>, callsign |-> <<90, 42>>,
           dimension_to_bow |-> <<132, 9>>, dimension_to_stern |-> <<141, 9>>,
           dimension_to_port |-> <<150, 6>>, dimension_to_starboard |-> <<156, 6>> ]
Code24A == << <<"message_type", 6, 8>>, <<"repeat_indicator", 2, 8>>, <<"mmsi", 30, 32>>,
              <<"part_number", 2, 8>>, <<"vessel_name", 120, 0>> >>
Code24B == << <<"message_type", 6, 8>>, <<"repeat_indicator", 2, 8>>, <<"mmsi", 30, 32>>,
              <<"part_number", 2, 8>>, <<"ship_type", 8, 8>>, <<"vendor_id", 18, 0>>,
              <<"unit_model_code", 4, 8>>, <<"serial_number", 20, 32>>, <<"callsign", 42, 0>>,
              <<"dimension_to_bow", 9, 16>>, <<"dimension_to_stern", 9, 16>>,
              <<"dimension_to_port", 6, 16>>, <<"dimension_to_starboard", 6, 16>>, <<"_spare", 6, 8>> >>

\* ---- type 27: long-range AIS broadcast message, 96 bits (table 79)
Itu27 == [ message_type |-> <<0, 6>>, repeat_indicator |-> <<6, 2>>, mmsi |-> <<8, 30>>,
           position_accuracy |-> <<38, 1>>, raim |-> <<39, 1>>, navigation_status |-> <<40, 4>>,
           longitude |-> <<44, 18>>, latitude |-> <<62, 17>>, speed_over_ground |-> <<79, 6>>,
           course_over_ground |-> <<85, 9>>, gnss_position_status |-> <<94, 1>> ]
Code27 == << <<"message_type", 6, 8>>, <<"repeat_indicator", 2, 8>>, <<"mmsi", 30, 32>>,
             <<"position_accuracy", 1, 8>>, <<"raim", 1, 8>>, <<"navigation_status", 4, 8>>,
             <<"longitude", 18, 32>>, <<"latitude", 17, 32>>, <<"speed_over_ground", 6, 16>>,
             <<"course_over_ground", 9, 16>>, <<"gnss_position_status", 1, 8>> >>

\* message lengths in bits (ITU-R M.1371-5 table 46 and the individual tables)
ItuLengths == [ t \in 1..27 |->
    CASE t \in {1, 2, 3, 4, 9, 11, 18} -> {168}
      [] t = 5  -> {424}
      [] t = 6  -> {88 + 8 * i : i \in 0..115}
      [] t \in {7, 13} -> {72, 104, 136, 168}
      [] t = 8  -> {56 + 8 * i : i \in 0..119}
      [] t = 10 -> {72}
      [] t = 12 -> {72 + 6 * i : i \in 1..156}
      [] t = 14 -> {40 + 6 * i : i \in 1..161}
      [] t = 15 -> {88, 110, 112, 160}
      [] t = 16 -> {96, 144}
      [] t = 17 -> {80 + 8 * i : i \in 5..92}     \* 40-bit DGNSS header present
      [] t = 19 -> {312}
      [] t = 20 -> {72, 104, 136, 160}
      [] t = 21 -> {272 + 8 * i : i \in 0..11}
      [] t = 24 -> {160, 168}
      [] t = 27 -> {96}
      [] OTHER  -> {} ]

Supported == (1..21) \cup {24, 27}

\* bits the type's mandatory part needs (below this only an error is acceptable)
Mandatory(t) ==
    CASE t \in {1, 2, 3, 4, 9, 11, 18} -> 168
      [] t = 5  -> 302
      [] t = 6  -> 88
      [] t \in {7, 13} -> 72
      [] t = 8  -> 56
      [] t = 10 -> 72
      [] t = 12 -> 78
      [] t = 14 -> 46
      [] t = 15 -> 76      \* first station's MMSI and first request type; the slot offset may be cut off
      [] t = 16 -> 92
      [] t = 17 -> 120
      [] t = 19 -> 312
      [] t = 20 -> 70
      [] t = 21 -> 272
      [] t = 24 -> 40
      [] t = 27 -> 96
      [] OTHER  -> 6

\* a byte count is legal for type t if it is what a message of an ITU length L turns into,
\* either tightly packed (ceil(L/8)) or after armoring into ceil(L/6) characters (ceil(6 ceil(L/6) / 8))
Ceil(a, b) == (a + b - 1) \div b
LegalBytes(t) == {Ceil(L, 8) : L \in ItuLengths[t]} \cup {Ceil(6 * Ceil(L, 6), 8) : L \in ItuLengths[t]}

\* cumulative offsets of a code-order layout: sequence of <<name, offset, width, outBits>>
RECURSIVE Cum(_, _)
Cum(code, off) ==
    IF code = << >> THEN << >>
    ELSE << <<code[1][1], off, code[1][2], code[1][3]>> >> \o Cum(Tail(code), off + code[1][2])
Total(code) == LET c == Cum(code, 0) IN IF c = << >> THEN 0 ELSE c[Len(c)][2] + c[Len(c)][3]
=============================================================================
