------------------------------ MODULE AisText ------------------------------
(***************************************************************************)
(* 6-bit ASCII text fields (property C13).                                 *)
(***************************************************************************)
EXTENDS Integers, Sequences, AisBits

\* requirement-shaped: the 64-character table of ITU-R M.1371 (table 47)
SixBitTable ==
    << 64, 65, 66, 67, 68, 69, 70, 71, 72, 73, 74, 75, 76, 77, 78, 79,      \* @ A .. O
       80, 81, 82, 83, 84, 85, 86, 87, 88, 89, 90, 91, 92, 93, 94, 95,      \* P .. Z [ \ ] ^ _
       32, 33, 34, 35, 36, 37, 38, 39, 40, 41, 42, 43, 44, 45, 46, 47,      \* space ! " .. /
       48, 49, 50, 51, 52, 53, 54, 55, 56, 57, 58, 59, 60, 61, 62, 63 >>    \* 0 .. 9 : ; < = > ?
SixToAsciiReq(v) == SixBitTable[v + 1]

\* implementation-shaped: parsers.rs sixbit_to_ascii
SixToAscii(v) == IF v <= 31 THEN v + 64 ELSE v

\* characters of a field of `nchars` characters starting at bit `off`
RawText(b, off, nchars) == [i \in 1..nchars |-> SixToAscii(Bits(b, off + 6 * (i - 1), 6))]

\* requirement-shaped trimming: leading spaces, then trailing '@', then trailing spaces
RECURSIVE DropLeading(_, _)
DropLeading(s, c) == IF s # << >> /\ Head(s) = c THEN DropLeading(Tail(s), c) ELSE s
RECURSIVE DropTrailing(_, _)
DropTrailing(s, c) == IF s # << >> /\ s[Len(s)] = c THEN DropTrailing(SubSeq(s, 1, Len(s) - 1), c) ELSE s
TrimReq(s) == DropTrailing(DropTrailing(DropLeading(s, 32), 64), 32)

\* fast form: index arithmetic
Trim(s) ==
    LET n == Len(s)
        lead == IF \A i \in 1..n : s[i] = 32 THEN n
                ELSE (CHOOSE i \in 1..n : s[i] # 32 /\ \A j \in 1..(i-1) : s[j] = 32) - 1
        \* after dropping `lead` characters
        EndAt(c, hi) == \* largest e in lead..hi with s[e] # c (or lead if none)
            IF \A i \in (lead+1)..hi : s[i] = c THEN lead
            ELSE CHOOSE e \in (lead+1)..hi : s[e] # c /\ \A j \in (e+1)..hi : s[j] = c
        e1 == EndAt(64, n)
        e2 == EndAt(32, e1)
    IN  SubSeq(s, lead + 1, e2)

TextAt(b, off, nchars) == Trim(RawText(b, off, nchars))
=============================================================================
