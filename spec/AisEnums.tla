------------------------------ MODULE AisEnums ------------------------------
(***************************************************************************)
(* Enumerated code fields (property C12).                                  *)
(* The expected value of an enumerated field is the projection the         *)
(* recorder produces: [n |-> variant name, c |-> carried code or -1],      *)
(* wrapped in a 0/1-element sequence when the field is optional.           *)
(* Names are the crate's variant identifiers for the values ITU-R M.1371   *)
(* names (the ITU meaning is given in the comments).                       *)
(***************************************************************************)
EXTENDS Integers, Sequences

E(name) == [n |-> name, c |-> -1]
EC(name, code) == [n |-> name, c |-> code]
Some(x) == <<x>>
None == << >>

\* Navigation status (4 bits, types 1-3 and 27).  15 = undefined -> absent
NavStatusNames ==
    << "UnderWayUsingEngine",        \* 0 under way using engine
       "AtAnchor",                   \* 1 at anchor
       "NotUnderCommand",            \* 2 not under command
       "RestrictedManouverability",  \* 3 restricted manoeuvrability
       "ConstrainedByDraught",       \* 4 constrained by her draught
       "Moored",                     \* 5 moored
       "Aground",                    \* 6 aground
       "EngagedInFishing",           \* 7 engaged in fishing
       "UnderWaySailing",            \* 8 under way sailing
       "ReservedForHSC",             \* 9 reserved (HSC)
       "ReservedForWIG",             \* 10 reserved (WIG)
       "Reserved01",                 \* 11 reserved
       "Reserved02",                 \* 12 reserved
       "Reserved03",                 \* 13 reserved
       "AisSartIsActive" >>          \* 14 AIS-SART active
NavStatus(c) == IF c = 15 THEN None
                ELSE IF c <= 14 THEN Some(E(NavStatusNames[c + 1]))
                ELSE Some(EC("Unknown", c))

\* Manoeuvre indicator (2 bits).  0 = not available -> absent
Maneuver(c) == IF c = 0 THEN None
               ELSE IF c = 1 THEN Some(E("NoSpecialManeuver"))
               ELSE IF c = 2 THEN Some(E("SpecialManeuver"))
               ELSE Some(EC("Unknown", c))

\* Electronic position fixing device (4 bits).  0 and 15 = undefined -> absent
EpfdNames == << "Gps", "Glonass", "CombinedGpsAndGlonass", "LoranC", "Chayka",
                "IntegratedNavigationSystem", "Surveyed", "Galileo" >>
Epfd(c) == IF c = 0 \/ c = 15 THEN None
           ELSE IF c <= 8 THEN Some(E(EpfdNames[c]))
           ELSE Some(EC("Unknown", c))

\* Ship and cargo type (8 bits).  0 and >= 100 -> absent
ShipDecade(first) ==   \* names of x0..x9 for the decades with hazard categories
    << first, first \o "HazardousCategoryA", first \o "HazardousCategoryB",
       first \o "HazardousCategoryC", first \o "HazardousCategoryD" >>
ShipValue(c) ==
    IF c \in 1..19 THEN EC("Reserved", c)
    ELSE IF c \in 20..24 THEN E(ShipDecade("WingInGround")[c - 19])
    ELSE IF c \in 25..29 THEN EC("WingInGroundReserved", c)
    ELSE IF c = 30 THEN E("Fishing")
    ELSE IF c = 31 THEN E("Towing")
    ELSE IF c = 32 THEN E("TowingLarge")
    ELSE IF c = 33 THEN E("Dredging")
    ELSE IF c = 34 THEN E("DivingOps")
    ELSE IF c = 35 THEN E("MilitaryOps")
    ELSE IF c = 36 THEN E("Sailing")
    ELSE IF c = 37 THEN E("PleasureCraft")
    ELSE IF c \in 38..39 THEN EC("Reserved", c)
    ELSE IF c \in 40..44 THEN E(ShipDecade("HighSpeedCraft")[c - 39])
    ELSE IF c \in 45..48 THEN EC("HighSpeedCraftReserved", c)
    ELSE IF c = 49 THEN E("HighSpeedCraftNoAdditionalInformation")
    ELSE IF c = 50 THEN E("PilotVessel")
    ELSE IF c = 51 THEN E("SearchAndRescueVessel")
    ELSE IF c = 52 THEN E("Tug")
    ELSE IF c = 53 THEN E("PortTender")
    ELSE IF c = 54 THEN E("AntiPollutionEquipment")
    ELSE IF c = 55 THEN E("LawEnforcement")
    ELSE IF c \in 56..57 THEN EC("SpareLocalVessel", c)
    ELSE IF c = 58 THEN E("MedicalTransport")
    ELSE IF c = 59 THEN E("NoncombatantShip")
    ELSE IF c \in 60..64 THEN E(ShipDecade("Passenger")[c - 59])
    ELSE IF c \in 65..68 THEN EC("PassengerReserved", c)
    ELSE IF c = 69 THEN E("PassengerNoAdditionalInformation")
    ELSE IF c \in 70..74 THEN E(ShipDecade("Cargo")[c - 69])
    ELSE IF c \in 75..78 THEN EC("CargoReserved", c)
    ELSE IF c = 79 THEN E("CargoNoAdditionalInformation")
    ELSE IF c \in 80..84 THEN E(ShipDecade("Tanker")[c - 79])
    ELSE IF c \in 85..88 THEN EC("TankerReserved", c)
    ELSE IF c = 89 THEN E("TankerNoAdditionalInformation")
    ELSE IF c \in 90..94 THEN E(ShipDecade("Other")[c - 89])
    ELSE IF c \in 95..98 THEN EC("OtherReserved", c)
    ELSE E("OtherNoAdditionalInformation")       \* 99
ShipType(c) == IF c = 0 \/ c >= 100 THEN None ELSE Some(ShipValue(c))

\* Aid-to-navigation type (5 bits).  0 = not specified -> absent
NavaidNames ==
    << "ReferencePoint", "Racon", "FixedStructureOffShore", "Spare",
       "LightWithoutSectors", "LightWithSectors", "LeadingLightFront", "LeadingLightRear",
       "BeaconCardinalN", "BeaconCardinalE", "BeaconCardinalS", "BeaconCardinalW",
       "BeaconPortHand", "BeaconStarboardHand", "BeaconPreferredChannelPortHand",
       "BeaconPreferredChannelStarboardHand", "BeaconIsolatedDanger", "BeaconSafeWater",
       "BeaconSpecialMark", "CardinalMarkN", "CardinalMarkE", "CardinalMarkS", "CardinalMarkW",
       "PortHandMark", "StarboardHandMark", "PreferredChannelPortHand",
       "PreferredChannelStarboardHand", "IsolatedDanger", "SafeWater", "SpecialMark",
       "LightVesselOrLanbyOrRigs" >>
Navaid(c) == IF c = 0 THEN None
             ELSE IF c <= 31 THEN Some(E(NavaidNames[c]))
             ELSE Some(EC("Unknown", c))

\* Synchronisation state (2 bits)
SyncNames == << "UtcDirect", "UtcIndirect", "BaseStation", "NumberOfReceivedStations" >>
Sync(c) == IF c <= 3 THEN E(SyncNames[c + 1]) ELSE EC("Unknown", c)

\* 1-bit codes
Accuracy(c) == IF c = 0 THEN E("Unaugmented") ELSE E("Dgps")
Dte(c)      == IF c = 0 THEN E("Ready") ELSE E("NotReady")
Assigned(c) == IF c = 0 THEN E("Autonomous") ELSE E("Assigned")
CsUnit(c)   == IF c = 0 THEN E("Sotdma") ELSE E("CarrierSense")

=============================================================================
