CONSTANTS
  Pids = {1}
  Ids <- MCIds
  MaxN = 3
  MaxK = 4
  Lens = {1, 2}
  Cap = 0
  Dev <- DevStale
  Export = FALSE
SPECIFICATION Spec
INVARIANTS TypeOK GuardsPartition NoFault GateInv ProvenanceInv ReassemblyInv NoTraceInv DecodeFlagInv
CHECK_DEADLOCK FALSE
