INIT Init
NEXT Next
