CONSTANTS
  Pids = {1}
  Ids <- MCIds
  MaxN = 4
  MaxK = 5
  Lens = {1, 2}
  Cap = 0
  Dev <- NoDev
  Export = FALSE
SPECIFICATION Spec
INVARIANTS TypeOK GuardsPartition NoFault GateInv ProvenanceInv ReassemblyInv NoTraceInv DecodeFlagInv
CHECK_DEADLOCK FALSE
