----------------------------- MODULE MC_Builds -----------------------------
EXTENDS AisBuilds
MCIds == {-1, 1}
NoDev == {}
DevFragno == {"noalloc_fragno_before_extend"}
=============================================================================
