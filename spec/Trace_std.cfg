CONSTANTS
  Build = "std"
  Known = {"type9_no_selector", "sentence_type_on_armored"}
  ArmorDev = {}
SPECIFICATION Spec
INVARIANTS TraceTypeOK TraceStateInv
POSTCONDITION AllConsumed
CHECK_DEADLOCK FALSE
