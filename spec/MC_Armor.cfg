CONSTANT ArmorDev = {}
SPECIFICATION Spec
INVARIANT ArmorInv
CHECK_DEADLOCK FALSE
