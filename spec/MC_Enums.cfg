INIT Init
NEXT Next
