------------------------------ MODULE MC_Enums ------------------------------
(* C12 at the design level: every enumeration map is injective on its domain, the *)
(* undefined codes are exactly the stated ones, unassigned codes stay recoverable. *)
EXTENDS Integers, Sequences, FiniteSets, TLC, AisEnums

VARIABLE x
Init == x = 0
Next == x' = x

Inj(F(_), Dom) == \A a, b \in Dom : F(a) = F(b) => a = b
Undef(F(_), Dom) == {c \in Dom : F(c) = None}
Recoverable(F(_), Dom) == \A c \in Dom : F(c) # None => (F(c)[1].c = -1 \/ F(c)[1].c = c)

ASSUME Inj(NavStatus, 0..14) /\ Undef(NavStatus, 0..15) = {15}
ASSUME Inj(Maneuver, 1..3) /\ Undef(Maneuver, 0..3) = {0} /\ Recoverable(Maneuver, 0..3)
ASSUME Inj(Epfd, 1..14) /\ Undef(Epfd, 0..15) = {0, 15} /\ Recoverable(Epfd, 0..15)
ASSUME Inj(ShipType, 1..99) /\ Undef(ShipType, 0..255) = {0} \cup 100..255 /\ Recoverable(ShipType, 0..255)
ASSUME Inj(Navaid, 1..31) /\ Undef(Navaid, 0..31) = {0}
ASSUME Inj(Sync, 0..3)
ASSUME Accuracy(0) # Accuracy(1) /\ Dte(0) # Dte(1) /\ Assigned(0) # Assigned(1) /\ CsUnit(0) # CsUnit(1)
\* names are pairwise distinct within each table, and the carried code is the code
ASSUME Cardinality({NavStatusNames[i] : i \in 1..15}) = 15
ASSUME Cardinality({NavaidNames[i] : i \in 1..31}) = 31
ASSUME Cardinality({EpfdNames[i] : i \in 1..8}) = 8
ASSUME Cardinality({ShipValue(c).n : c \in 1..99}) = 59
ASSUME \A c \in 1..99 : ShipValue(c).c \in {-1, c}
=============================================================================
