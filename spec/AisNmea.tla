------------------------------ MODULE AisNmea ------------------------------
(***************************************************************************)
(* The NMEA sentence layer (properties C02, C07, C08, C19).                *)
(*                                                                         *)
(*   ParseLine(b, cap) - implementation-shaped: sentence.rs                *)
(*        parse_nmea_sentence / parse_ais_sentence, combinator by          *)
(*        combinator with a cursor, exactly in the code's order.           *)
(*        cap = maximal payload length of the build (384 without an        *)
(*        allocator, 0 = unbounded).                                       *)
(*   Shape(b)         - requirement-shaped: the sentence shape of C08      *)
(*        stated by splitting the body at commas, and C02's checksum       *)
(*        region "bytes strictly between the delimiter and the first '*'". *)
(* A line is a sequence of bytes.  The result record of both:              *)
(*   [ok, n, k, id (-1 = absent), chan (-1 = absent), payload, fill,       *)
(*    ckGiven, ckComputed, talker, report, starInField]                    *)
(***************************************************************************)
EXTENDS Integers, Sequences, SequencesExt, Bitwise, AisBits

Comma == 44
Star == 42
Bang == 33
Dollar == 36
Backslash == 92
IsDigit(c) == c \in 48..57
IsHex(c) == c \in 48..57 \/ c \in 65..70 \/ c \in 97..102
HexVal(c) == IF c \in 48..57 THEN c - 48 ELSE IF c \in 65..70 THEN c - 55 ELSE c - 87

\* first index i in from..Len(b) with b[i] = c, or 0
IndexOf(b, c, from) ==
    IF from > Len(b) THEN 0 ELSE SelectInSubSeq(b, from, Len(b), LAMBDA x : x = c)

\* first index i in from..Len(b) for which ~P(b[i]); Len(b)+1 if none (end of a run)
RunEnd(b, from, P(_)) ==
    IF from > Len(b) THEN from
    ELSE LET i == SelectInSubSeq(b, from, Len(b), LAMBDA x : ~P(x))
         IN  IF i = 0 THEN Len(b) + 1 ELSE i

XorFold(s) == FoldLeft(LAMBDA acc, x : acc ^^ x, 0, s)

\* decimal value of digits b[from..to-1], saturating at 1000 (TLC integers are 32-bit;
\* u8::from_str accepts any number of leading zeros and rejects values > 255)
DecVal(b, from, to) ==
    LET F[i \in (from - 1)..(to - 1)] ==
            IF i = from - 1 THEN 0
            ELSE LET v == F[i - 1] * 10 + (b[i] - 48) IN IF v > 1000 THEN 1000 ELSE v
    IN  F[to - 1]

\* value of up to 8 hex digits b[from..to-1]; saturates at 256 (only <= 0xFF matters)
HexValSat(b, from, to) ==
    LET F[i \in (from - 1)..(to - 1)] ==
            IF i = from - 1 THEN 0
            ELSE LET v == F[i - 1] * 16 + HexVal(b[i]) IN IF v > 255 THEN 256 ELSE v
    IN  F[to - 1]

TalkerNames == {"AB", "AD", "AI", "AN", "AR", "AS", "AT", "AX", "BS", "SA"}
\* two address bytes -> talker name
TalkerOf(a, b) ==
    IF a = 65 /\ b = 66 THEN "AB" ELSE IF a = 65 /\ b = 68 THEN "AD"
    ELSE IF a = 65 /\ b = 73 THEN "AI" ELSE IF a = 65 /\ b = 78 THEN "AN"
    ELSE IF a = 65 /\ b = 82 THEN "AR" ELSE IF a = 65 /\ b = 83 THEN "AS"
    ELSE IF a = 65 /\ b = 84 THEN "AT" ELSE IF a = 65 /\ b = 88 THEN "AX"
    ELSE IF a = 66 /\ b = 83 THEN "BS" ELSE IF a = 83 /\ b = 65 THEN "SA"
    ELSE "Unknown"
ReportOf(a, b, c) ==
    IF a = 86 /\ b = 68 /\ c = 77 THEN "VDM"
    ELSE IF a = 86 /\ b = 68 /\ c = 79 THEN "VDO" ELSE "Unknown"

BadLine(why) ==
    [ok |-> FALSE, why |-> why, n |-> 0, k |-> 0, id |-> -1, chan |-> -1, payload |-> << >>,
     fill |-> 0, ckGiven |-> 0, ckComputed |-> 0, talker |-> "Unknown", report |-> "Unknown",
     starInField |-> FALSE]

--------------------------------------------------------------------------
(* implementation-shaped *)
ParseLine(b, cap) ==
    LET len == Len(b)
        \* opt(delimited(tag("\\"), take_until("\\"), tag("\\")))
        tbClose == IF len >= 1 /\ b[1] = Backslash THEN IndexOf(b, Backslash, 2) ELSE 0
        d == IF tbClose > 0 THEN tbClose + 1 ELSE 1          \* position of the start delimiter
    IN  IF d > len \/ b[d] \notin {Bang, Dollar} THEN BadLine("delimiter")
        ELSE
        LET star1 == IndexOf(b, Star, d + 1)                  \* peek(take_until("*"))
        IN  IF star1 = 0 THEN BadLine("nostar")
        ELSE
        LET p0 == d + 1                                       \* take(2) take(3)
        IN  IF p0 + 4 > len THEN BadLine("address")
        ELSE IF p0 + 5 > len \/ b[p0 + 5] # Comma THEN BadLine("comma1")
        ELSE
        LET nFrom == p0 + 6
            nTo == RunEnd(b, nFrom, IsDigit)
        IN  IF nTo = nFrom \/ DecVal(b, nFrom, nTo) > 255 THEN BadLine("count")
        ELSE IF nTo > len \/ b[nTo] # Comma THEN BadLine("comma2")
        ELSE
        LET kFrom == nTo + 1
            kTo == RunEnd(b, kFrom, IsDigit)
        IN  IF kTo = kFrom \/ DecVal(b, kFrom, kTo) > 255 THEN BadLine("number")
        ELSE IF kTo > len \/ b[kTo] # Comma THEN BadLine("comma3")
        ELSE
        LET iFrom == kTo + 1
            iRun == RunEnd(b, iFrom, IsDigit)
            idOk == iRun > iFrom /\ DecVal(b, iFrom, iRun) <= 255
            iTo == IF idOk THEN iRun ELSE iFrom               \* opt(): no consumption on failure
            id == IF idOk THEN DecVal(b, iFrom, iRun) ELSE -1
        IN  IF iTo > len \/ b[iTo] # Comma THEN BadLine("comma4")
        ELSE
        LET cFrom == iTo + 1
            cTo == IndexOf(b, Comma, cFrom)                   \* take_until(",")
        IN  IF cTo = 0 THEN BadLine("channel")
        ELSE
        LET chan == IF cTo > cFrom THEN b[cFrom] ELSE -1      \* opt(anychar) on the field
            yFrom == cTo + 1
            yTo == IndexOf(b, Comma, yFrom)
        IN  IF yTo = 0 THEN BadLine("payload")
        ELSE
        LET fFrom == yTo + 1
            fTo == RunEnd(b, fFrom, IsDigit)
        IN  IF fTo = fFrom \/ DecVal(b, fFrom, fTo) > 255 THEN BadLine("fill")
        ELSE IF DecVal(b, fFrom, fTo) >= 6 THEN BadLine("fill6")
        ELSE IF yTo = yFrom THEN BadLine("emptypayload")       \* message_type() on the raw field
        ELSE IF cap > 0 /\ yTo - yFrom > cap THEN BadLine("toolarge")
        ELSE IF fTo > len \/ b[fTo] # Star THEN BadLine("star")
        ELSE
        LET hFrom == fTo + 1
            hRun == RunEnd(b, hFrom, IsHex)
            hTo == IF hRun - hFrom > 8 THEN hFrom + 8 ELSE hRun
        IN  IF hRun = hFrom THEN BadLine("nohex")
        ELSE IF HexValSat(b, hFrom, hTo) > 255 THEN BadLine("hexrange")
        ELSE
        [ok |-> TRUE, why |-> "", n |-> DecVal(b, nFrom, nTo), k |-> DecVal(b, kFrom, kTo),
         id |-> id, chan |-> chan, payload |-> SubSeq(b, yFrom, yTo - 1),
         fill |-> DecVal(b, fFrom, fTo),
         ckGiven |-> HexValSat(b, hFrom, hTo),
         ckComputed |-> XorFold(SubSeq(b, d + 1, star1 - 1)),
         talker |-> TalkerOf(b[p0], b[p0 + 1]),
         report |-> ReportOf(b[p0 + 2], b[p0 + 3], b[p0 + 4]),
         starInField |-> star1 # fTo]

--------------------------------------------------------------------------
(* requirement-shaped (C08 wording).  Split-based rather than cursor-based. *)

\* split s at commas into a sequence of fields
RECURSIVE SplitComma(_)
SplitComma(s) ==
    LET i == IndexOf(s, Comma, 1)
    IN  IF i = 0 THEN <<s>> ELSE <<SubSeq(s, 1, i - 1)>> \o SplitComma(SubSeq(s, i + 1, Len(s)))

AllDigits(s) == s # << >> /\ \A i \in 1..Len(s) : IsDigit(s[i])
NumOf(s) == DecVal(s, 1, Len(s) + 1)

Shape(b) ==
    LET len == Len(b)
        \* optional tag block: backslash ... backslash
        hasTag == len >= 1 /\ b[1] = Backslash
        tagEnd == IF hasTag THEN IndexOf(b, Backslash, 2) ELSE 0
        d == IF hasTag THEN (IF tagEnd = 0 THEN 0 ELSE tagEnd + 1) ELSE 1
    IN  IF d = 0 \/ d > len \/ ~(b[d] = Bang \/ b[d] = Dollar) THEN BadLine("delimiter")
        ELSE
        LET star == IndexOf(b, Star, d + 1)
        IN  IF star = 0 THEN BadLine("nostar")
        ELSE
        LET body == SubSeq(b, d + 1, star - 1)                \* the checksum region
            tail == SubSeq(b, star + 1, len)
        IN  IF Len(body) < 6 \/ body[6] # Comma THEN BadLine("address")
        ELSE
        LET fields == SplitComma(SubSeq(body, 7, Len(body)))
        IN  IF Len(fields) # 6 THEN BadLine("fieldcount")
        ELSE
        LET fn == fields[1] fk == fields[2] fi == fields[3]
            fc == fields[4] fy == fields[5] ff == fields[6]
            hexRun == RunEnd(tail, 1, IsHex) - 1
            hexUsed == IF hexRun > 8 THEN 8 ELSE hexRun
        IN  IF ~AllDigits(fn) \/ NumOf(fn) > 255 THEN BadLine("count")
            ELSE IF ~AllDigits(fk) \/ NumOf(fk) > 255 THEN BadLine("number")
            ELSE IF fi # << >> /\ (~AllDigits(fi) \/ NumOf(fi) > 255) THEN BadLine("id")
            ELSE IF fy = << >> THEN BadLine("emptypayload")
            ELSE IF ~AllDigits(ff) \/ NumOf(ff) >= 6 THEN BadLine("fill")
            ELSE IF hexRun = 0 THEN BadLine("nohex")
            ELSE IF HexValSat(tail, 1, hexUsed + 1) > 255 THEN BadLine("hexrange")
            ELSE
            [ok |-> TRUE, why |-> "", n |-> NumOf(fn), k |-> NumOf(fk),
             id |-> IF fi = << >> THEN -1 ELSE NumOf(fi),
             chan |-> IF fc = << >> THEN -1 ELSE fc[1],
             payload |-> fy, fill |-> NumOf(ff),
             ckGiven |-> HexValSat(tail, 1, hexUsed + 1),
             ckComputed |-> XorFold(body),
             talker |-> TalkerOf(body[1], body[2]),
             report |-> ReportOf(body[3], body[4], body[5]),
             starInField |-> FALSE]

(***************************************************************************)
(* Lines on which C02's region and C08's shape can disagree: a '*' inside  *)
(* the address, channel or payload.  (DESIGN section 5, rule 3): never     *)
(* judged unless both readings reject.                                     *)
(***************************************************************************)
UnspecifiedStar(b, cap) == LET p == ParseLine(b, cap) IN p.ok /\ p.starInField

\* C19: the sentence-level type is the 6-bit value of the first payload character
SentenceTypeIdeal(payload) ==
    LET c == payload[1] IN IF c \in 48..87 THEN c - 48 ELSE IF c \in 96..119 THEN c - 56 ELSE -1
\* as built (named deviation sentence_type_on_armored): first raw byte >> 2
SentenceTypeAsBuilt(payload) == payload[1] \div 4
=============================================================================
