------------------------------ MODULE AisArmor ------------------------------
(***************************************************************************)
(* 6-bit "armoring" of AIS payloads (property C03).                        *)
(*   UnarmorReq  - requirement-shaped: the bit stream is the concatenation *)
(*                 of the characters' 6-bit values, the last `fill` of the *)
(*                 6n bits and everything beyond forced to zero, packed    *)
(*                 MSB first into ceil(6n/8) bytes.                        *)
(*   UnarmorAlg  - implementation-shaped: messages::unarmor as coded, its  *)
(*                 offset arithmetic, spill rule and two masking steps,    *)
(*                 with a fault flag for every index/subtraction/shift     *)
(*                 that an overflow-checked build would reject.            *)
(*   Unarmor     - fast form (4 characters -> 3 bytes) used on traces.     *)
(* Result: [ok |-> BOOLEAN, out |-> byte sequence, fault |-> BOOLEAN].     *)
(***************************************************************************)
EXTENDS Integers, Sequences, AisBits, Bitwise

CONSTANT ArmorDev      \* subset of {"unarmor_empty_fill"}: as-built deviations switched on

\* The 64-character alphabet, as the property states it
SixBit(c) == IF c \in 48..87 THEN c - 48
             ELSE IF c \in 96..119 THEN c - 56
             ELSE -1
IsArmor(c) == SixBit(c) >= 0
AllArmor(d) == \A i \in 1..Len(d) : IsArmor(d[i])

\* inverse (for generators and MC)
ArmorChar(v) == IF v < 40 THEN v + 48 ELSE v + 56

CeilDiv(a, b) == (a + b - 1) \div b

--------------------------------------------------------------------------
\* requirement-shaped
StreamBit(d, fill, p) ==
    IF p >= 6 * Len(d) - fill THEN 0
    ELSE (SixBit(d[(p \div 6) + 1]) \div Pow2(5 - (p % 6))) % 2

UnarmorReq(d, fill) ==
    IF ~AllArmor(d) THEN [ok |-> FALSE, out |-> << >>, fault |-> FALSE]
    ELSE LET nb == CeilDiv(6 * Len(d), 8)
             ByteAt(j) == \* j 0-based
                 StreamBit(d, fill, 8*j) * 128 + StreamBit(d, fill, 8*j+1) * 64
               + StreamBit(d, fill, 8*j+2) * 32 + StreamBit(d, fill, 8*j+3) * 16
               + StreamBit(d, fill, 8*j+4) * 8  + StreamBit(d, fill, 8*j+5) * 4
               + StreamBit(d, fill, 8*j+6) * 2  + StreamBit(d, fill, 8*j+7)
         IN  [ok |-> TRUE, out |-> [j \in 1..nb |-> ByteAt(j - 1)], fault |-> FALSE]

--------------------------------------------------------------------------
\* implementation-shaped (src/messages/mod.rs:164-219)
UnarmorAlg(d, fill) ==
    LET bitCount  == Len(d) * 6
        byteCount == (bitCount \div 8) + (IF bitCount % 8 # 0 THEN 1 ELSE 0)
        \* the placement loop; state [out, offset, err, fault]
        Place(s, byte) ==
            IF s.err \/ s.fault THEN s
            ELSE IF ~(byte \in 48..87 \/ byte \in 96..119) THEN [s EXCEPT !.err = TRUE]
            ELSE
            LET un == ((IF byte \in 48..87 THEN byte - 48 ELSE byte - 56) * 4) % 256
                ob == s.offset \div 8
                obit == s.offset % 8
                hi == un \div Pow2(obit)
                withHi == IF ob + 1 <= Len(s.out)
                          THEN [s.out EXCEPT ![ob + 1] = @ | hi]
                          ELSE s.out
                spill == obit > 2
                lo == (un * Pow2(8 - obit)) % 256
                withLo == IF spill /\ ob + 2 <= Len(withHi)
                          THEN [withHi EXCEPT ![ob + 2] = @ | lo]
                          ELSE withHi
                idxFault == ob + 1 > Len(s.out) \/ (spill /\ ob + 2 > Len(s.out))
            IN  [out |-> withLo, offset |-> s.offset + 6, err |-> FALSE, fault |-> idxFault]
        P[i \in 0..Len(d)] ==
            IF i = 0 THEN [out |-> [j \in 1..byteCount |-> 0], offset |-> 0, err |-> FALSE, fault |-> FALSE]
            ELSE Place(P[i - 1], d[i])
        placed == P[Len(d)]
    IN  IF placed.err THEN [ok |-> FALSE, out |-> << >>, fault |-> FALSE]
        ELSE IF placed.fault THEN [ok |-> FALSE, out |-> << >>, fault |-> TRUE]
        ELSE IF fill = 0 THEN [ok |-> TRUE, out |-> placed.out, fault |-> FALSE]
        ELSE
        LET bitsInFinal == IF bitCount % 8 = 0 THEN 8 ELSE bitCount % 8
        IN  IF byteCount = 0
            THEN \* `byte_count - 1` on usize
                 IF "unarmor_empty_fill" \in ArmorDev
                 THEN [ok |-> FALSE, out |-> << >>, fault |-> TRUE]      \* as built before the fix
                 ELSE [ok |-> TRUE, out |-> << >>, fault |-> FALSE]      \* nothing to mask
            ELSE
            LET finalIdx == byteCount - 1                      \* 0-based
                minFB == IF fill < bitsInFinal THEN fill ELSE bitsInFinal
                shift == (8 - bitsInFinal) + minFB
                m1 == IF shift <= 7 THEN (255 * Pow2(shift)) % 256 ELSE 0
                o1 == [placed.out EXCEPT ![finalIdx + 1] = @ & m1]
                second == fill > bitsInFinal
                f2 == second /\ finalIdx = 0                    \* `final_idx - 1` underflow / index
                sh2 == fill - bitsInFinal
                m2 == (255 * Pow2(sh2)) % 256
                o2 == IF second /\ ~f2 THEN [o1 EXCEPT ![finalIdx] = @ & m2] ELSE o1
            IN  IF shift > 8 \/ f2 THEN [ok |-> FALSE, out |-> << >>, fault |-> TRUE]
                ELSE [ok |-> TRUE, out |-> o2, fault |-> FALSE]

--------------------------------------------------------------------------
\* fast form for traces: 4 characters -> 3 bytes, then clear the tail bits
Unarmor(d, fill) ==
    IF ~AllArmor(d) THEN [ok |-> FALSE, out |-> << >>, fault |-> FALSE]
    ELSE
    LET n  == Len(d)
        nb == CeilDiv(6 * n, 8)
        V(i) == IF i <= n THEN SixBit(d[i]) ELSE 0
        Raw(j) == \* j 1-based output byte
            LET g == (j - 1) \div 3          \* group index
                c == 4 * g                   \* chars c+1..c+4
                r == (j - 1) % 3
            IN  IF r = 0 THEN V(c+1) * 4 + V(c+2) \div 16
                ELSE IF r = 1 THEN (V(c+2) % 16) * 16 + V(c+3) \div 4
                ELSE (V(c+3) % 4) * 64 + V(c+4)
        keep == 6 * n - fill                 \* number of leading bits kept
        Masked(j) ==
            LET lo == 8 * (j - 1)            \* first bit index of byte j
            IN  IF keep >= lo + 8 THEN Raw(j)
                ELSE IF keep <= lo THEN 0
                ELSE LET z == lo + 8 - keep IN (Raw(j) \div Pow2(z)) * Pow2(z)
    IN  [ok |-> TRUE, out |-> [j \in 1..nb |-> Masked(j)], fault |-> FALSE]

\* inverse for generators: bytes -> armored characters (nchars characters)
Armor(bytes, nchars) ==
    [i \in 1..nchars |->
        LET off == 6 * (i - 1)
            avail == 8 * Len(bytes) - off
        IN  ArmorChar(IF avail >= 6 THEN Bits(bytes, off, 6)
                      ELSE IF avail <= 0 THEN 0
                      ELSE Bits(bytes, off, avail) * Pow2(6 - avail))]
=============================================================================
