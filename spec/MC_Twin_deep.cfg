CONSTANTS
  Ids <- MCIds
  MaxN = 4
  MaxK = 5
  Cap = 0
  Dev <- NoDev
SPECIFICATION Spec
INVARIANT TwinInv
CHECK_DEADLOCK FALSE
