---------------------------- MODULE AisParserApa ----------------------------
(***************************************************************************)
(* C06 over the FULL u8 ranges, as an inductive invariant for Apalache.    *)
(* The bounded TLC models use n <= 4, k <= 5 and three ids; here fragment  *)
(* counts, numbers and sequence ids range over 0..255 (id -1 = absent).    *)
(* The payload buffer is abstracted to the ghost facts the property needs: *)
(* `inOrder` (the buffer is exactly fragments 1..no of the open group,     *)
(* each once, in order) - the concrete concatenation is checked by TLC and *)
(* by conformance.  The step rules restate AisParser!Outcome (ideal, no    *)
(* capacity) on integers; AisParserApaEq.cfg is not needed: the guards are *)
(* short enough to compare by eye, and the TLC-checked AisParserMC and     *)
(* this module are both validated against the same recorded executions.    *)
(*                                                                         *)
(*   apalache-mc check --cinit=CInitIdeal --init=Init    --inv=IndInv --length=0 AisParserApa.tla *)
(*   apalache-mc check --cinit=CInitIdeal --init=IndInit --inv=IndInv --length=1 AisParserApa.tla *)
(*   apalache-mc check --cinit=CInitStale --init=IndInit --inv=IndInv --length=1   (must FAIL)  *)
(***************************************************************************)
EXTENDS Integers

CONSTANT
    \* @type: Bool;
    Stale      \* TRUE: the named deviation stale_group_after_delivery (negative control: IndInv must break)

CInitIdeal == Stale = FALSE
CInitStale == Stale = TRUE

VARIABLES
    \* @type: Int;
    id,        \* sequence id of the open group, -1 = none
    \* @type: Int;
    no,        \* last accepted fragment number, 0 = no group open
    \* @type: Bool;
    inOrder,   \* ghost: the buffer holds fragments 1..no of one group, each once, in order
    \* @type: Int;
    gid,       \* ghost (requirement level): id of the group opened by the last accepted fragment 1
    \* @type: Int;
    glast,     \* ghost: number of the last ACCEPTED fragment of that group, 0 = delivered / none
    \* @type: Bool;
    lastOk     \* the last step satisfied C06's acceptance rule

U8 == 0..255
Ids == -1..255

Init == id = -1 /\ no = 0 /\ inOrder = TRUE /\ gid = -1 /\ glast = 0 /\ lastOk = TRUE

TypeOK == id \in Ids /\ no \in U8 /\ gid \in Ids /\ glast \in U8 /\ inOrder \in BOOLEAN /\ lastOk \in BOOLEAN

\* one line: form/checksum good or not, fragment count n, number k, sequence id lid
Step(good, n, k, lid) ==
    LET hasMore == k < n
        isFrag == n # 1
        resets == hasMore /\ k = 1
        bid == IF resets THEN lid ELSE id
        bno == IF resets THEN 0 ELSE no
        sequenced == good /\ (hasMore \/ isFrag)
        accepts == sequenced /\ bid = lid /\ k = bno + 1
        opens == accepts /\ hasMore /\ k = 1
        continues == accepts /\ hasMore /\ k # 1
        delivers == accepts /\ ~hasMore
        \* C06: a fragment k >= 2 of a validly numbered sentence is accepted only if it directly continues
        \* the group opened by a fragment 1 and not yet delivered, same id
        rule == (accepts /\ k >= 2 /\ k <= n) => (glast = k - 1 /\ gid = lid /\ glast >= 1)
        delivered == (delivers /\ k >= 2 /\ k <= n) => inOrder
    IN  /\ id' = IF opens \/ continues THEN bid ELSE IF delivers THEN (IF Stale THEN bid ELSE -1) ELSE id
        /\ no' = IF opens \/ continues THEN k ELSE IF delivers THEN (IF Stale THEN k ELSE 0) ELSE no
        /\ inOrder' = IF opens THEN TRUE ELSE IF continues THEN inOrder ELSE IF delivers THEN TRUE ELSE inOrder
        /\ gid' = IF opens THEN lid ELSE IF delivers THEN -1 ELSE gid
        /\ glast' = IF opens \/ continues THEN k ELSE IF delivers THEN 0 ELSE glast
        /\ lastOk' = (rule /\ delivered)

Next == \E good \in BOOLEAN : \E n \in U8 : \E k \in U8 : \E lid \in Ids : Step(good, n, k, lid)

\* the implementation-shaped state and the requirement-level ghost agree, and the rule held at every step
IndInv ==
    /\ TypeOK
    /\ glast = no
    /\ (no >= 1 => gid = id)
    /\ (no = 0 => (id = -1 /\ gid = -1))
    /\ inOrder
    /\ lastOk

IndInit == IndInv
=============================================================================
