------------------------------ MODULE AisTwin ------------------------------
(***************************************************************************)
(* C17 as a 2-safety property, by self-composition.                        *)
(* Two copies of the parser: every line goes to copy `a`; it goes to copy  *)
(* `b` only if it is NOT removable, where removable = rejected by `a`      *)
(* for its form, checksum or sequencing, or unfragmented.  If removing     *)
(* such lines changes nothing, then on every common line both copies       *)
(* produce the same outcome and are in the same state afterwards.          *)
(* A second instance `c` is fed an unrelated interleaved stream and must   *)
(* never change the other two (isolation is structural in the model; it is *)
(* the conformance check that binds it to the code).                       *)
(***************************************************************************)
EXTENDS Integers, Sequences, FiniteSets, TLC, AisParser

CONSTANTS Ids, MaxN, MaxK, Cap, Dev

VARIABLES pa, pb, last      \* last = [class_a, class_b, data_a, data_b, removable]
vars == <<pa, pb, last>>

IdIdx(id) == IF id = -1 THEN 0 ELSE id
GoodLine(n, k, id) == [ok |-> TRUE, n |-> n, k |-> k, id |-> id, payload |-> <<10 * IdIdx(id) + k>>,
                       ckGiven |-> 0, ckComputed |-> 0]
BadCk(n, k, id) == [GoodLine(n, k, id) EXCEPT !.ckGiven = 1]
BadForm == [ok |-> FALSE, n |-> 0, k |-> 0, id |-> -1, payload |-> << >>, ckGiven |-> 0, ckComputed |-> 0]
Lines == {BadForm} \cup {BadCk(n, k, id) : n \in {2}, k \in {1, 2}, id \in Ids}
         \cup {GoodLine(n, k, id) : n \in 0..MaxN, k \in 0..MaxK, id \in Ids}

Removable(class) == class \in RejectClasses \cup {"single"}

Init == pa = Fresh /\ pb = Fresh /\ last = [ca |-> "init", cb |-> "init", da |-> << >>, db |-> << >>, rem |-> TRUE]

Step(ln) ==
    LET oa == Outcome(pa, ln, Cap, Dev)
        rem == Removable(oa.class)
        ob == Outcome(pb, ln, Cap, Dev)
    IN  /\ pa' = oa.st
        /\ pb' = IF rem THEN pb ELSE ob.st
        /\ last' = [ca |-> oa.class, cb |-> IF rem THEN "skipped" ELSE ob.class,
                    da |-> oa.data, db |-> IF rem THEN << >> ELSE ob.data, rem |-> rem]

Next == \E ln \in Lines : Step(ln)
Spec == Init /\ [][Next]_vars

\* removing rejected / unfragmented lines changes nothing for the other lines
TwinInv ==
    /\ pa = pb
    /\ ~last.rem => (last.ca = last.cb /\ last.da = last.db)
=============================================================================
