------------------------------ MODULE AisTrace ------------------------------
(***************************************************************************)
(* Trace specification: implementation -> specification.                   *)
(*                                                                         *)
(* Consumes an ndjson file of observations recorded from the real crate    *)
(* (one event per call, each echoing its input bytes) and, for every       *)
(* event, recomputes from the input bytes alone - with AisNmea!ParseLine,  *)
(* the AisParser step function, AisArmor!Unarmor and AisDecode!Decode -    *)
(* what the specification allows, and compares it with the observation     *)
(* field by field.  The spec state (one AisParser state per logical        *)
(* parser) is driven by the recorded run, so every history-dependent       *)
(* expectation is evaluated along the real execution.                      *)
(*                                                                         *)
(* Monitor style: a mismatch is recorded in `viol` with the property that  *)
(* owns it and the run goes on (after a mismatch of outcome class the      *)
(* parser's state is no longer known: mode "lost" until its next `new`).   *)
(* The last step prints one RESULT line; the POSTCONDITION checks that     *)
(* every event was consumed.                                               *)
(***************************************************************************)
EXTENDS Integers, Sequences, FiniteSets, TLC, Json, IOUtils,
        AisNmea, AisParser, AisArmor, AisDecode

CONSTANTS Build,     \* "std" | "alloc" | "none"
          Known      \* deviation ids listed as open known findings

Rec == ndJsonDeserialize(IOEnv.TRACE)
MaxViol == 60

Cap == IF Build = "none" THEN 384 ELSE 0
BinCap == IF Build = "none" THEN 119 ELSE 0
TextCap == IF Build = "none" THEN 20 ELSE 0

VARIABLES l,       \* index of the next event
          ps,      \* [parser id -> AisParser state]   (function with a growing finite domain)
          lost,    \* set of parser ids whose state is unknown after a class mismatch
          caphit,  \* set of parser ids whose open group lost a fragment to a fixed capacity (no-allocator build)
          viol,    \* sequence of recorded violations [i, prop, what] (first MaxViol)
          nviol,   \* [property -> count]
          devs,    \* [deviation id -> number of observations matched only through it]
          cnt      \* counters: [events, lines, classes, types, unspec, lostskip]

vars == <<l, ps, lost, caphit, viol, nviol, devs, cnt>>

Props == {"C01", "C02", "C03", "C04", "C05", "C06", "C07", "C08", "C09", "C10", "C11", "C12",
          "C13", "C14", "C15", "C16", "C17", "C18", "C19", "C20", "X"}
DevIds == {"type9_no_selector", "sentence_type_on_armored", "type15_station2_offset",
           "type27_sentinel_resolution"}

StateOf(p) == IF p \in DOMAIN ps THEN ps[p] ELSE Fresh

Has(e, f) == f \in DOMAIN e
V(prop, what) == {<<prop, what>>}

--------------------------------------------------------------------------
(* Payload level: what `data` with `fill` must decode to.                  *)
(* Returns [must, dm, why] : must \in {"ok", "err", "either"}              *)
PayloadExpect(data, fill) ==
    LET ua == Unarmor(data, fill)
    IN  IF ~ua.ok THEN [must |-> "err", dm |-> ErrorDecode, why |-> "armor"]
        ELSE LET dm == Decode(ua.out)
             IN  IF dm.class = "error"
                 THEN [must |-> "err", dm |-> dm,
                       why |-> IF dm.t \notin Supported THEN "unsupported" ELSE "short"]
                 ELSE IF Build = "none" /\ (OverCapacity(dm, BinCap, TextCap)
                                            \/ TextCharsOf(ua.out, dm.t) > TextCap)
                 THEN [must |-> "err", dm |-> dm, why |-> "capacity"]
                 ELSE [must |-> IF dm.class = "exact" THEN "ok" ELSE "either", dm |-> dm, why |-> ""]

DecodeExpect(bytes) ==
    LET dm == Decode(bytes)
    IN  IF dm.class = "error"
        THEN [must |-> "err", dm |-> dm, why |-> IF dm.t \notin Supported THEN "unsupported" ELSE "short"]
        ELSE IF Build = "none" /\ (OverCapacity(dm, BinCap, TextCap) \/ TextCharsOf(bytes, dm.t) > TextCap)
        THEN [must |-> "err", dm |-> dm, why |-> "capacity"]
        ELSE [must |-> IF dm.class = "exact" THEN "ok" ELSE "either", dm |-> dm, why |-> ""]

WhyProp(why) == IF why = "armor" THEN "C03" ELSE IF why = "unsupported" THEN "C09"
                ELSE IF why = "short" THEN "C14" ELSE "C18"

\* a message of a protocol-legal length was rejected: C14 (decode what is present), C04 (the values are
\* not reported), and for the binary types C15 (every payload length up to the protocol maximum)
Rejected(px) ==
    {<<"C14", "decodable payload rejected">>, <<"C04", "decodable payload rejected">>,
     <<"C09", "a message of a supported type and legal length is not decoded as the kind its type selects">>}
    \cup (IF px.dm.t \in {6, 8, 17} THEN {<<"C15", "binary message of a legal length rejected">>} ELSE {})

\* a message was produced where only an error is acceptable: if it is not even of the kind the six
\* type bits select, that contradicts C09 as well
WrongKind(px, msgseq) ==
    IF msgseq # << >> /\ msgseq[1].v # VariantOf(px.dm.t)
    THEN V("C09", "type " \o ToString(px.dm.t) \o " decoded as " \o msgseq[1].v) ELSE {}

\* violations of a decoded message observation `msgseq` (<<>> or <<m>>) against expectation px
MsgJudge(px, msgseq) ==
    IF msgseq = << >> THEN V("C07", "message absent although decoding was requested")
    ELSE {<<t[1], t[2] \o ":" \o t[3]>> : t \in MsgViolOf(px.dm, msgseq[1], Known)}
MsgDevs(px, msgseq) == IF msgseq = << >> THEN {} ELSE MsgDevUsed(px.dm, msgseq[1], Known)

--------------------------------------------------------------------------
(* One `line` event.  Returns [viol, devs, st, lost, class, unspec].       *)
JudgeLine(e, st) ==
    LET ln == ParseLine(e.b, Cap)
        o  == Outcome(st, ln, Cap, {})
        unspec == ln.ok /\ (ln.starInField \/ ~ValidNumbering(ln))
        obsAcc == e.r \in {"complete", "incomplete"}
        r0 == ResultOf(o.class)
        needDecode == r0 = "complete" /\ e.dec = 1
        px == IF needDecode THEN PayloadExpect(o.data, ln.fill)
              ELSE [must |-> "ok", dm |-> ErrorDecode, why |-> ""]
        \* ---- class level
        classViol ==
            IF e.r = "panic"
            THEN V("C01", "panic: " \o e.pmsg)
                 \* where an error value is the required answer, a panic also breaks the rule that requires it
                 \cup (IF needDecode /\ px.must = "err"
                       THEN V(WhyProp(px.why), "panic where an error must be returned (" \o px.why \o ")") ELSE {})
            ELSE IF o.class = "reject_form"
            THEN IF obsAcc
                 THEN V("C08", "ill-formed line accepted (" \o ln.why \o ")")
                      \* a transmitted checksum value above 0xFF can equal no XOR of bytes: also a breach of the gate
                      \* a numeric header field that is not a number in 0..255 cannot be "reported as transmitted"
                      \cup (IF ln.why \in {"count", "number", "fill", "fill6", "comma4"}
                            THEN V("C07", "sentence reported for a line whose numeric field is not a valid value (" \o ln.why \o ")") ELSE {})
                      \* ... and if that sentence takes part in a fragment group, a group was continued / delivered
                      \* by something that is not a validly numbered sentence
                      \cup (IF Has(e, "s") /\ (e.s.n # 1 \/ e.s.k # 1)
                            THEN V("C06", "ill-formed line accepted as a fragment (" \o ln.why \o ")") ELSE {})
                      \cup (IF ln.why = "hexrange" THEN V("C02", "line accepted although the transmitted checksum value exceeds 0xFF")
                           ELSE IF ln.why = "nohex" THEN V("C02", "line accepted although no hexadecimal value follows the '*'") ELSE {})
                 ELSE {}
            ELSE IF o.class = "reject_checksum"
            THEN IF e.r = "err_checksum"
                 THEN IF e.ck = <<ln.ckGiven, ln.ckComputed>> THEN {}
                      ELSE V("C02", "checksum error carries wrong values")
                 ELSE IF obsAcc THEN V("C02", "line with wrong checksum accepted")
                 ELSE V("C02", "wrong checksum not reported as a checksum error")
            ELSE IF e.r = "err_checksum" THEN V("C02", "checksum error although the checksums agree")
            ELSE IF o.class \in {"reject_seq_id", "reject_seq_no"}
            THEN IF obsAcc THEN V("C06", "out-of-sequence fragment accepted (" \o o.class \o ")") ELSE {}
            ELSE IF o.class = "reject_cap"
            THEN IF obsAcc THEN V("C18", "fragment accepted beyond the reassembly capacity") ELSE {}
            ELSE \* accepted classes
            IF e.r = "err_nmea"
            THEN IF needDecode
                 THEN IF px.must = "ok" THEN Rejected(px) ELSE {}
                 ELSE (IF o.class = "single" THEN V("C08", "well-formed sentence rejected")
                       ELSE V("C05", "in-sequence fragment rejected (" \o o.class \o ")"))
                      \* ... and if its payload is not armored data and decoding was not requested, an error that
                      \* only the payload can explain was raised with decoding off
                      \cup (IF e.dec = 0 /\ ~Unarmor(ln.payload, 0).ok
                            THEN V("C07", "payload-level error raised although decoding was not requested") ELSE {})
            ELSE IF e.r # r0 THEN V("C05", "expected " \o r0 \o " got " \o e.r)
            ELSE IF needDecode /\ px.must = "err"
            THEN V(WhyProp(px.why), "payload that must be rejected was decoded (" \o px.why \o ")")
                 \cup WrongKind(px, e.s.msg)
            ELSE {}
        \* ---- field level (only when accepted as expected)
        s == e.s
        own == ln.payload
        mtIdeal == SentenceTypeIdeal(own)
        mtIdealCat == IF o.class = "deliver" THEN SentenceTypeIdeal(o.data) ELSE mtIdeal
        mtOk == mtIdeal = -1 \/ s.mtype = mtIdeal \/ s.mtype = mtIdealCat
        mtDev == ~mtOk /\ "sentence_type_on_armored" \in Known /\ s.mtype = SentenceTypeAsBuilt(own)
        syntViol ==
            (IF s.talker = ln.talker THEN {} ELSE V("C07", "talker"))
            \cup (IF s.report = ln.report THEN {} ELSE V("C07", "report type"))
            \cup (IF s.n = ln.n THEN {} ELSE V("C07", "fragment count"))
            \cup (IF s.k = ln.k THEN {} ELSE V("C07", "fragment number"))
            \cup (IF s.id = (IF ln.id = -1 THEN << >> ELSE <<ln.id>>) THEN {} ELSE V("C07", "sequence id"))
            \cup (IF s.chan = (IF ln.chan = -1 THEN << >> ELSE <<ln.chan>>) THEN {} ELSE V("C07", "channel"))
            \cup (IF s.fill = ln.fill THEN {} ELSE V("C07", "fill bits"))
        \* a sentence numbered outside 1 <= k <= n: whether it is treated as unfragmented or as a member of a
        \* group is not specified, but if it is accepted it still reports what was transmitted, and its payload is
        \* its own, or the open group's followed by its own - never anything else
        numViol ==
            IF ln.starInField \/ ~obsAcc THEN {}
            ELSE syntViol
                 \cup (IF s.data = ln.payload \/ (e.r = "complete" /\ s.data = st.data \o ln.payload) THEN {}
                       ELSE V("C07", "payload of an accepted sentence is neither its own nor its group's"))
        fieldViol ==
            syntViol
            \cup (IF s.more = (IF HasMore(ln) THEN 1 ELSE 0) /\ s.frag = (IF IsFragment(ln) THEN 1 ELSE 0)
                  THEN {} ELSE V("C07", "has_more / is_fragment"))
            \cup (IF s.data = o.data THEN {}
                  ELSE IF o.class = "deliver"
                       THEN {<<"C05", "reassembled payload">>, <<"C06", "reassembled payload">>,
                             <<"C07", "payload of a completed group is not the concatenation of its fragments">>}
                            \* ... and if the group carries a binary message, bytes of it were dropped or added
                            \cup (IF SentenceTypeIdeal(o.data) \in {6, 8, 17}
                                  THEN V("C15", "reassembled payload of a binary message is not the transmitted one") ELSE {})
                       ELSE IF o.class = "single" THEN V("C07", "payload")
                       ELSE {<<"C07", "payload">>, <<"C05", "fragment payload">>})
            \cup (IF mtOk \/ mtDev THEN {} ELSE V("C19", "sentence message type"))
            \cup (IF e.r = "incomplete" \/ e.dec = 0
                  THEN IF s.msg = << >> THEN {} ELSE V("C07", "message present without decoding / on a fragment")
                  ELSE MsgJudge(px, s.msg))
            \* a decoded message that is wrong for the transmitted fill count but right for another one: the
            \* payload was unarmored with a fill count that this sentence did not carry
            \cup (IF e.r = "complete" /\ e.dec = 1 /\ s.msg # << >> /\ px.must # "err" /\ MsgJudge(px, s.msg) # {}
                     /\ \E f \in (0..5) \ {ln.fill} :
                            LET pf == PayloadExpect(o.data, f)
                            IN  pf.must # "err" /\ MsgViolOf(pf.dm, s.msg[1], Known) = {}
                  THEN V("C03", "message decoded from the payload unarmored with a fill count that was not transmitted")
                  ELSE {})
            \cup (IF Has(e, "opt") /\ e.opt = (IF e.r = "complete" THEN 1 ELSE 0)
                     /\ e.res = e.opt /\ e.convsame = 1 THEN {} ELSE V("C05", "Option/Result conversion"))
        fieldDevs ==
            (IF mtDev THEN {"sentence_type_on_armored"} ELSE {})
            \cup (IF e.r = "complete" /\ e.dec = 1 THEN MsgDevs(px, s.msg) ELSE {})
        agreeViol == IF e.agree = 1 THEN {} ELSE V("C17", "lock-step parser instances disagree")
        kindOk == \* observed result kind compatible with the expectation: state can be followed
            /\ e.r # "panic"
            /\ classViol = {}
        checked == obsAcc /\ classViol = {} /\ r0 \in {"complete", "incomplete"} /\ e.r = r0
        wronglyRejected == o.class \in {"open", "continue", "deliver", "single"} /\ ~needDecode
                           /\ e.r \in {"err_nmea", "err_checksum"}
        \* the sentence-level type is judged whenever a sentence comes back for a well-formed line, whatever else
        \* is wrong with the outcome
        mtAlways == IF obsAcc /\ ln.ok /\ ~checked /\ ~(mtOk \/ mtDev) THEN V("C19", "sentence message type") ELSE {}
        \* an unfragmented sentence or first fragment that reports a payload other than the transmitted one (C07's
        \* concern) and a type that is not the type of the payload it reports either
        mtReported ==
            IF obsAcc /\ ln.ok /\ o.class \in {"single", "open"} /\ s.data # o.data /\ s.data # << >>
               /\ SentenceTypeIdeal(s.data) # -1 /\ s.mtype # SentenceTypeIdeal(s.data)
               /\ ~("sentence_type_on_armored" \in Known /\ s.mtype = SentenceTypeAsBuilt(s.data))
            THEN V("C19", "sentence message type is not the type of the payload the sentence reports") ELSE {}
    IN  IF unspec
        THEN \* never judged (DESIGN 5.3, 5.4) except for totality; the code's own reading is the reference
             [viol |-> (IF e.r = "panic" THEN V("C01", "panic: " \o e.pmsg) ELSE {}) \cup agreeViol \cup numViol,
              devs |-> {}, st |-> o.st,
              lost |-> ~((obsAcc /\ e.r = r0) \/ (~obsAcc /\ (r0 \in {"err_nmea", "err_checksum"} \/ needDecode))),
              class |-> o.class, unspec |-> TRUE]
        ELSE [viol |-> classViol \cup agreeViol \cup mtAlways \cup mtReported \cup (IF checked THEN fieldViol ELSE {}),
              devs |-> IF checked THEN fieldDevs ELSE {},
              \* a line the specification accepts but the code rejected with an error: by C17 a rejected
              \* line leaves no trace, so tracking continues from the unchanged state (if it did leave one,
              \* the next lines show it)
              st |-> IF wronglyRejected THEN st ELSE o.st,
              \* a payload-level disagreement on an unfragmented sentence or a delivery says nothing
              \* about the reassembly state (it is the same either way): keep tracking
              lost |-> ~kindOk /\ ~wronglyRejected
                       /\ ~(o.class \in {"single", "deliver"} /\ needDecode /\ e.r \in {"err_nmea", "complete"}),
              class |-> o.class, unspec |-> FALSE]

--------------------------------------------------------------------------
(* Twin comparison (C17 / C18): an event may carry the observation made    *)
(* for the same input in another run (`twin`) that the specification says  *)
(* must be observationally identical.                                      *)
Proj(e) == [r |-> e.r,
            s |-> IF Has(e, "s") THEN e.s ELSE << >>,
            ck |-> IF Has(e, "ck") THEN e.ck ELSE << >>,
            msg |-> IF Has(e, "msg") THEN e.msg ELSE << >>,
            out |-> IF Has(e, "out") THEN e.out ELSE << >>]
\* does one of the no-allocator build's fixed capacities (384 payload bytes per sentence and per reassembled
\* message, 119 bytes of binary data, 20 characters of text) excuse an error for this operation?
DecodeCapExcuse(bytes) ==
    LET dm == Decode(bytes)
    IN  dm.class # "error" /\ (OverCapacity(dm, 119, 20) \/ TextCharsOf(bytes, dm.t) > 20)
NoneCapacityExcuse(e) ==
    IF e.op = "decode" THEN DecodeCapExcuse(e.b)
    ELSE IF e.op = "unarmor" THEN (6 * Len(e.b) + 7) \div 8 > 384
    ELSE IF e.op = "line" /\ Has(e, "s")
         THEN \/ Len(e.s.data) > 384
              \/ LET ln == ParseLine(e.b, 0) IN ln.ok /\ Len(ln.payload) > 384
              \/ (e.dec = 1 /\ e.r = "complete"
                  /\ LET ua == Unarmor(e.s.data, e.s.fill) IN ua.ok /\ DecodeCapExcuse(ua.out))
    ELSE FALSE

MsgOfEv(e) == IF Has(e, "s") THEN e.s.msg ELSE IF Has(e, "msg") THEN e.msg ELSE << >>
DataOfEv(e) == IF Has(e, "s") THEN e.s.data ELSE << >>
TwinViol(e) ==
    IF ~Has(e, "twin") THEN {}
    ELSE IF e.twinmode = "msgonly"
         THEN IF e.r = e.twin.r /\ MsgOfEv(e) = MsgOfEv(e.twin) THEN {}
              ELSE V(e.twinprop, "result / decoded message differs from its twin (" \o e.twinwhy \o ")")
    ELSE IF e.twinmode = "msgeq"
         \* the same message through a sentence and through the direct decode of its unarmored bytes
         THEN IF (e.r \in {"ok", "complete"}) = (e.twin.r \in {"ok", "complete"}) /\ MsgOfEv(e) = MsgOfEv(e.twin) THEN {}
              ELSE V(e.twinprop, "decoded message differs from its twin (" \o e.twinwhy \o ")")
    ELSE IF e.twinmode = "kind"
         \* the two inputs differ only in bits that must not decide between a value and an error
         THEN IF (e.r \in {"ok", "complete", "incomplete"}) = (e.twin.r \in {"ok", "complete", "incomplete"}) THEN {}
              ELSE V(e.twinprop, "accepted / rejected differently from its twin (" \o e.twinwhy \o ")")
    ELSE IF e.twinmode = "msg"
         THEN IF e.r = e.twin.r /\ MsgOfEv(e) = MsgOfEv(e.twin) /\ DataOfEv(e) = DataOfEv(e.twin) THEN {}
              ELSE V(e.twinprop, "result / payload / decoded message differs from its twin (" \o e.twinwhy \o ")")
    ELSE IF e.twinmode = "nonecap"
         \* this event: std build; twin: the no-allocator build.  Equal, unless the no-allocator build
         \* returned an error that one of its fixed capacities excuses
         THEN IF Proj(e) = Proj(e.twin) THEN {}
              ELSE IF e.twin.r \in {"err_nmea", "err_checksum"} /\ e.r \notin {"err_nmea", "err_checksum", "panic"}
                      /\ NoneCapacityExcuse(e) THEN {}
              ELSE IF e.r \in {"err_nmea", "err_checksum"} /\ e.twin.r \in {"err_nmea", "err_checksum"}
                      /\ e.op # "line" THEN {}      \* both reject a pure operation (the error category is free)
              ELSE V(e.twinprop, "no-allocator build differs without a capacity being exceeded (" \o e.twinwhy \o ")")
    ELSE IF e.twinmode = "sent"
         \* same line with decoding on / off: whenever both return a sentence, every field but the message agrees
         THEN IF Has(e, "s") /\ Has(e.twin, "s")
              THEN IF [e.s EXCEPT !.msg = << >>] = [e.twin.s EXCEPT !.msg = << >>] /\ e.r = e.twin.r THEN {}
                   ELSE V(e.twinprop, "sentence fields differ (" \o e.twinwhy \o ")")
              ELSE IF Has(e.twin, "s") /\ e.r = "err_checksum"
                   THEN V(e.twinprop, "sentence-level outcome differs (" \o e.twinwhy \o ")") ELSE {}
    ELSE IF Proj(e) = Proj(e.twin) THEN {}
    ELSE V(e.twinprop, "observation differs from its twin (" \o e.twinwhy \o ")")

--------------------------------------------------------------------------
JudgeUnarmor(e) ==
    IF e.fill > 5 THEN (IF e.r = "panic" THEN V("X", "unarmor panics with fill >= 6") ELSE {})
    ELSE
    LET u == Unarmor(e.b, e.fill)
        tooBig == Build = "none" /\ (6 * Len(e.b) + 7) \div 8 > 384
    IN  IF e.r = "panic" THEN {<<"C01", "unarmor panic: " \o e.pmsg>>, <<"C03", "unarmor panic">>}
        ELSE IF ~u.ok THEN (IF e.r = "ok" THEN V("C03", "non-alphabet input unarmored") ELSE {})
        ELSE IF tooBig THEN (IF e.r = "ok" THEN V("C18", "unarmor output beyond capacity") ELSE {})
        ELSE IF e.r # "ok" THEN V("C03", "alphabet string rejected")
        ELSE IF e.out = u.out THEN {} ELSE V("C03", "unarmored bytes differ")

JudgeDecode(e) ==
    LET px == DecodeExpect(e.b)
    IN  IF e.r = "panic"
        THEN V("C01", "decode panic: " \o e.pmsg)
             \cup (IF px.must = "err"
                   THEN V(WhyProp(px.why), "panic where an error must be returned (" \o px.why \o ")") ELSE {})
        ELSE IF e.r # "ok"
        THEN IF px.must = "ok" THEN Rejected(px) ELSE {}
        ELSE IF px.must = "err" THEN V(WhyProp(px.why), "payload that must be rejected was decoded (" \o px.why \o ")")
                                     \cup WrongKind(px, e.msg)
        ELSE MsgJudge(px, e.msg)
                \cup (IF e.name = NameOf(px.dm.t) THEN {} ELSE V("X", "name()"))
DecodeDevs(e) ==
    LET px == DecodeExpect(e.b)
    IN  IF e.r = "ok" /\ px.must # "err" THEN MsgDevs(px, e.msg) ELSE {}

JudgeShip(e) ==
    IF e.r = "panic" THEN V("C01", "ShipType::parse panic")
    ELSE (IF e.parse = ShipType(e.code) THEN {} ELSE V("C12", "ShipType::parse"))
         \cup (IF e.code \in 1..99 /\ (~Has(e, "back") \/ e.back # <<e.code>>)
               THEN V("C12", "ship type does not convert back to its code") ELSE {})

JudgeRot(e) ==
    IF e.r = "panic" THEN V("C01", "RateOfTurn panic")
    ELSE LET sv == Signed(e.raw, 8)
         IN  (IF e.v = (IF sv = -128 THEN << >> ELSE <<sv>>) THEN {} ELSE V("C11", "RateOfTurn::parse"))
             \cup (IF sv = -128 \/ ~Has(e, "dir") THEN {}
                   ELSE IF e.dir = (IF sv = 0 THEN << >> ELSE IF sv > 0 THEN <<"Starboard">> ELSE <<"Port">>)
                        THEN {} ELSE V("X", "RateOfTurn::direction"))
             \cup (IF sv = -128 \/ ~Has(e, "rate") THEN {}
                   ELSE IF (e.rate = << >>) = (sv \in {-127, 127}) THEN {} ELSE V("X", "RateOfTurn::rate"))

--------------------------------------------------------------------------
(* C20: one event per input line of a run of the real command-line tool:   *)
(*   [op |-> "cli", b |-> line bytes, out |-> records on stdout attributed *)
(*    to this line, err |-> records on stderr, variant |-> variant name in *)
(*    the stdout record or ""]                                             *)
(* and a final  [op |-> "cliend", exit, ordered, unattributed].            *)
(* Returns [viol, st, lost, class, unspec].                                *)
JudgeCli(e, st) ==
    LET ln == ParseLine(e.b, 0)
        o  == Outcome(st, ln, 0, {})
        unspec == ln.ok /\ (ln.starInField \/ ~ValidNumbering(ln))
        r0 == ResultOf(o.class)
        px == IF r0 = "complete" THEN PayloadExpect(o.data, ln.fill)
              ELSE [must |-> "ok", dm |-> ErrorDecode, why |-> ""]
        okOut == e.out = 1 /\ e.err = 0 /\ e.variant = px.dm.v
        okErr == e.out = 0 /\ e.err = 1
        okNone == e.out = 0 /\ e.err = 0
        good == IF r0 = "incomplete" THEN okNone
                ELSE IF r0 = "complete"
                     THEN (IF px.must = "ok" THEN okOut ELSE IF px.must = "err" THEN okErr ELSE okOut \/ okErr)
                ELSE okErr
        describe == "expected " \o (IF r0 = "incomplete" THEN "no record"
                                     ELSE IF r0 = "complete" /\ px.must = "ok" THEN "one stdout record (" \o px.dm.v \o ")"
                                     ELSE IF r0 = "complete" /\ px.must = "either" THEN "one record"
                                     ELSE "one stderr record")
                    \o ", observed " \o ToString(e.out) \o " on stdout (" \o e.variant \o "), "
                    \o ToString(e.err) \o " on stderr"
        \* what the tool printed also contradicts the property that governs this line's class, whenever the
        \* observation leaves no doubt about which decision of the library (or of the tool around it) went wrong
        also ==
            (IF o.class = "reject_form" /\ e.out >= 1
             THEN V("C08", "ill-formed line decoded by the command-line tool (" \o ln.why \o ")") ELSE {})
            \cup (IF o.class = "reject_checksum" /\ e.out >= 1
                  THEN V("C02", "line with a wrong checksum decoded by the command-line tool") ELSE {})
            \cup (IF o.class \in {"reject_seq_id", "reject_seq_no"} /\ e.out >= 1
                  THEN V("C06", "out-of-sequence fragment delivered by the command-line tool (" \o o.class \o ")") ELSE {})
            \cup (IF o.class \in {"open", "continue"} /\ e.err >= 1
                  THEN V("C05", "in-sequence fragment rejected by the command-line tool (" \o o.class \o ")") ELSE {})
            \cup (IF o.class \in {"open", "continue"} /\ e.out >= 1
                  THEN V("C05", "a message printed for a fragment that does not complete its group") ELSE {})
            \cup (IF r0 = "complete" /\ px.must = "ok" /\ e.out = 1 /\ e.variant # px.dm.v
                  THEN V("C09", "type " \o ToString(px.dm.t) \o " printed as " \o e.variant) ELSE {})
        \* a sentence numbered outside 1 <= k <= n: what it counts as is not specified, but a record printed for
        \* it holds the decoding of its own payload, or of the open group's followed by its own - nothing else
        ownPx == PayloadExpect(ln.payload, ln.fill)
        grpPx == PayloadExpect(st.data \o ln.payload, ln.fill)
        oddViol ==
            IF ln.starInField \/ e.out # 1 \/ e.variant \in {"?", "None", ""} THEN {}
            ELSE IF (ownPx.must # "err" /\ e.variant = ownPx.dm.v) \/ (grpPx.must # "err" /\ e.variant = grpPx.dm.v) THEN {}
            ELSE IF ownPx.must = "err" /\ grpPx.must = "err" THEN {}
            ELSE V("C20", "the record printed for this line holds a message that is neither its own payload's nor its group's")
    IN  IF unspec
        THEN [viol |-> (IF e.out + e.err > 1 THEN V("C20", "more than one record for a line") ELSE {}) \cup oddViol,
              st |-> o.st,
              lost |-> ~((r0 = "incomplete" /\ okNone) \/ (r0 = "complete" /\ (okErr \/ e.out = 1)) \/ (r0 \notin {"complete", "incomplete"} /\ okErr)),
              class |-> o.class, unspec |-> TRUE]
        ELSE [viol |-> IF good THEN {} ELSE V("C20", describe) \cup also,
              st |-> o.st, lost |-> ~good, class |-> o.class, unspec |-> FALSE]

\* C17 through the tool: the same line in a stream from which rejected / unfragmented lines were removed
TwinCli(e) ==
    IF ~Has(e, "twin") THEN {}
    ELSE IF e.out = e.twin.out /\ e.err = e.twin.err /\ e.variant = e.twin.variant THEN {}
    ELSE V(e.twinprop, "what the tool prints for this line changes when " \o e.twinwhy)

JudgeCliEnd(e) ==
    (IF e.exit = 0 THEN {} ELSE V("C20", "exit status " \o ToString(e.exit) \o " after " \o ToString(e.consumed) \o " of " \o ToString(e.total) \o " lines"))
    \cup (IF e.ordered = 1 THEN {} ELSE V("C20", "records are not in input order"))
    \cup (IF e.unattributed = 0 THEN {} ELSE V("C20", "records that belong to no input line"))

--------------------------------------------------------------------------
Init == /\ l = 1
        /\ ps = [p \in {} |-> Fresh]
        /\ lost = {}
        /\ caphit = {}
        /\ viol = << >>
        /\ nviol = [p \in Props |-> 0]
        /\ devs = [d \in DevIds |-> 0]
        /\ cnt = [events |-> 0, lines |-> 0, unspec |-> 0, lostskip |-> 0, decoded |-> 0, generr |-> 0,
                  class |-> [c \in Classes |-> 0], type |-> [t \in 0..63 |-> 0]]

\* add a set of <<prop, what>> found at event index i
AddViol(i, vs) ==
    /\ viol' = IF Len(viol) >= MaxViol \/ vs = {} THEN viol
               ELSE viol \o <<[i |-> i, prop |-> (CHOOSE v \in vs : TRUE)[1], what |-> (CHOOSE v \in vs : TRUE)[2],
                               all |-> {v[1] : v \in vs}]>>
    /\ nviol' = [p \in Props |-> nviol[p] + (IF \E v \in vs : v[1] = p THEN 1 ELSE 0)]
AddDevs(ds) == devs' = [d \in DevIds |-> devs[d] + (IF d \in ds THEN 1 ELSE 0)]

DecodedType(e) ==
    IF Has(e, "s") /\ e.s.msg # << >> THEN e.s.msg[1].f.message_type
    ELSE IF Has(e, "msg") /\ e.msg # << >> THEN e.msg[1].f.message_type ELSE -1

\* a generator labels lines it built as removable ("R:"); the specification must agree (else the
\* scenario, not the code, is at fault: reported as a tool error by the orchestrator)
GenErr(e, class, unspec) ==
    IF Has(e, "tag") /\ e.tag = "R:" /\ class # "" /\ ~unspec /\ class \notin (RejectClasses \cup {"single"})
    THEN 1 ELSE 0
Bump(e, class, unspec, skipped) ==
    cnt' = [cnt EXCEPT !.events = @ + 1,
                       !.generr = @ + GenErr(e, class, unspec),
                       !.lines = @ + (IF e.op \in {"line", "cli"} THEN 1 ELSE 0),
                       !.unspec = @ + (IF unspec THEN 1 ELSE 0),
                       !.lostskip = @ + (IF skipped THEN 1 ELSE 0),
                       !.decoded = @ + (IF DecodedType(e) >= 0 THEN 1 ELSE 0),
                       !.class = IF class = "" THEN @ ELSE [@ EXCEPT ![class] = @ + 1],
                       !.type = IF DecodedType(e) \in 0..63 THEN [@ EXCEPT ![DecodedType(e)] = @ + 1] ELSE @]

EvNew(e) ==
    /\ e.op = "new"
    /\ ps' = [q \in (DOMAIN ps) \cup {e.p} |-> IF q = e.p THEN Fresh ELSE ps[q]]
    /\ lost' = lost \ {e.p}
    /\ caphit' = caphit \ {e.p}
    /\ AddViol(l, {}) /\ AddDevs({}) /\ Bump(e, "", FALSE, FALSE)

EvLine(e) ==
    /\ e.op = "line"
    /\ IF e.p \in lost
       THEN \* state unknown.  Lines whose outcome is the same from every state (ill-formed, wrong checksum,
            \* unfragmented, first fragment of a group) are still judged in full, and a first fragment that is
            \* answered as expected makes the state known again; for all others only totality and twin
            \* equality are judged
            LET j0 == JudgeLine(e, Fresh)
                indep == j0.class \in {"reject_form", "reject_checksum", "single", "open"} /\ ~j0.unspec
                resync == indep /\ j0.class = "open" /\ ~j0.lost /\ j0.viol = {}
            IN  /\ ps' = IF resync THEN [q \in (DOMAIN ps) \cup {e.p} |-> IF q = e.p THEN j0.st ELSE ps[q]] ELSE ps
                /\ lost' = IF resync THEN lost \ {e.p} ELSE lost
                /\ caphit' = IF resync THEN caphit \ {e.p} ELSE caphit
                /\ AddViol(l, (IF indep THEN j0.viol
                               ELSE IF e.r = "panic" THEN V("C01", "panic: " \o e.pmsg) ELSE {}) \cup TwinViol(e))
                /\ AddDevs(IF indep THEN j0.devs ELSE {})
                /\ Bump(e, IF indep THEN j0.class ELSE "", FALSE, ~indep)
       ELSE LET j == JudgeLine(e, StateOf(e.p))
            IN  /\ ps' = [q \in (DOMAIN ps) \cup {e.p} |-> IF q = e.p THEN j.st ELSE ps[q]]
                /\ lost' = IF j.lost THEN lost \cup {e.p} ELSE lost
                \* a fragment refused for lack of room poisons its group until a new group is opened
                /\ caphit' = IF j.class = "reject_cap" THEN caphit \cup {e.p}
                              ELSE IF j.class = "open" THEN caphit \ {e.p} ELSE caphit
                \* ... and whatever the build still accepts or delivers for that group is a silent truncation (C18)
                /\ AddViol(l, j.viol \cup TwinViol(e)
                              \cup (IF e.p \in caphit /\ (\E v \in j.viol : v[1] \in {"C05", "C06"})
                                        /\ e.r \in {"complete", "incomplete"}
                                    THEN V("C18", "group continued / delivered after one of its fragments was refused for capacity (silent truncation)")
                                    ELSE {}))
                /\ AddDevs(j.devs) /\ Bump(e, j.class, j.unspec, FALSE)

EvPure(e) ==
    /\ e.op \in {"unarmor", "decode", "ship", "rot"}
    /\ UNCHANGED <<ps, lost, caphit>>
    /\ AddViol(l, (CASE e.op = "unarmor" -> JudgeUnarmor(e)
                     [] e.op = "decode" -> JudgeDecode(e)
                     [] e.op = "ship" -> JudgeShip(e)
                     [] e.op = "rot" -> JudgeRot(e)) \cup TwinViol(e))
    /\ AddDevs(IF e.op = "decode" THEN DecodeDevs(e) ELSE {})
    /\ Bump(e, "", FALSE, FALSE)

EvCli(e) ==
    /\ e.op = "cli"
    /\ IF 0 \in lost
       THEN \* as for library lines: outcomes that do not depend on the reassembly state are still judged
            LET j0 == JudgeCli(e, Fresh)
                indep == j0.class \in {"reject_form", "reject_checksum", "single", "open"} /\ ~j0.unspec
                resync == indep /\ j0.class = "open" /\ ~j0.lost
            IN  /\ ps' = IF resync THEN [q \in (DOMAIN ps) \cup {0} |-> IF q = 0 THEN j0.st ELSE ps[q]] ELSE ps
                /\ lost' = IF resync THEN lost \ {0} ELSE lost
                /\ UNCHANGED caphit
                /\ AddViol(l, (IF indep THEN j0.viol ELSE {}) \cup TwinCli(e)) /\ AddDevs({})
                /\ Bump(e, IF indep THEN j0.class ELSE "", FALSE, ~indep)
       ELSE LET j == JudgeCli(e, StateOf(0))
            IN  /\ ps' = [q \in (DOMAIN ps) \cup {0} |-> IF q = 0 THEN j.st ELSE ps[q]]
                /\ lost' = IF j.lost THEN lost \cup {0} ELSE lost
                /\ UNCHANGED caphit
                /\ AddViol(l, j.viol \cup TwinCli(e)) /\ AddDevs({}) /\ Bump(e, j.class, j.unspec, FALSE)

EvCliEnd(e) ==
    /\ e.op = "cliend"
    /\ UNCHANGED <<ps, lost, caphit>>
    /\ AddViol(l, JudgeCliEnd(e)) /\ AddDevs({}) /\ Bump(e, "", FALSE, FALSE)

EvMeta(e) ==
    /\ e.op \notin {"new", "line", "unarmor", "decode", "ship", "rot", "cli", "cliend"}
    /\ UNCHANGED <<ps, lost, caphit>>
    /\ AddViol(l, {}) /\ AddDevs({}) /\ Bump(e, "", FALSE, FALSE)

Report ==
    PrintT(<<"RESULT", ToJson([events |-> cnt'.events, lines |-> cnt'.lines, unspec |-> cnt'.unspec,
                               lostskip |-> cnt'.lostskip, decoded |-> cnt'.decoded, generr |-> cnt'.generr,
                               class |-> cnt'.class,
                               types |-> {<<t, cnt'.type[t]>> : t \in {x \in 0..63 : cnt'.type[x] > 0}},
                               nviol |-> [p \in {x \in Props : nviol'[x] > 0} |-> nviol'[p]],
                               devs |-> [d \in {x \in DevIds : devs'[x] > 0} |-> devs'[d]],
                               viol |-> viol'])>>)

Next ==
    /\ l <= Len(Rec)
    /\ LET e == Rec[l] IN EvNew(e) \/ EvLine(e) \/ EvPure(e) \/ EvCli(e) \/ EvCliEnd(e) \/ EvMeta(e)
    /\ l' = l + 1
    /\ (l' > Len(Rec)) => Report

Spec == Init /\ [][Next]_vars

\* every recorded event was consumed (one state per event plus the initial state)
AllConsumed == TLCGet("stats").diameter - 1 = Len(Rec)

\* design invariants evaluated along the recorded run
TraceTypeOK ==
    /\ l \in 1..(Len(Rec) + 1)
    /\ \A p \in DOMAIN ps : ps[p].no \in 0..255 /\ ps[p].id \in -1..255
    /\ \A p \in DOMAIN ps : Cap > 0 => Len(ps[p].data) <= Cap
\* while a group is open its buffer is non-empty and its number positive; a closed parser is Fresh
TraceStateInv ==
    \A p \in DOMAIN ps : (ps[p].no = 0) => (ps[p].data = << >>)
=============================================================================
