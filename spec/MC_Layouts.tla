----------------------------- MODULE MC_Layouts -----------------------------
(***************************************************************************)
(* C04 / C14 / C16 / C01 at the design level:                              *)
(*  - the cumulative widths of the code-order take sequences equal the ITU *)
(*    absolute offsets, for every named field of every type and branch;    *)
(*  - totals equal the ITU message lengths;                                *)
(*  - every take is fault-free (no shift >= width of the output type, no   *)
(*    `+=` overflow) at its static bit offset, on an all-ones message;     *)
(*  - the communication state occupies the last 19 bits of the 168-bit     *)
(*    message in all seven types, the selector precedes it for 9 and 18;   *)
(*  - list element counts: the implementation-shaped "parse while an       *)
(*    element fits" loop yields the requirement-shaped count at every      *)
(*    legal length; mandatory parts fit the shortest legal length.         *)
(***************************************************************************)
EXTENDS Integers, Sequences, FiniteSets, TLC, AisBits, AisLayouts

VARIABLE x
Init == x = 0
Next == x' = x

Named(c) == c[1][1] # "_" 
IsSpare(name) == name \in {"_spare", "_spare1", "_spare2", "_spare3", "_spare4", "_regional", "_regional2"}

\* every named fixed-width field of the code-order layout sits at its ITU offset with its ITU width
Agrees(code, itu) ==
    LET cum == Cum(code, 0)
    IN  \A i \in 1..Len(cum) :
            LET nm == cum[i][1] IN
            (~IsSpare(nm) /\ nm \in DOMAIN itu /\ cum[i][3] > 0) =>
                (itu[nm][1] = cum[i][2] /\ itu[nm][2] = cum[i][3])
\* ... and every ITU field occurs in the code-order layout
Covers(code, itu, except) ==
    \A nm \in (DOMAIN itu) \ except : \E i \in 1..Len(code) : code[i][1] = nm

Ones(n) == [i \in 1..n |-> 255]
TakesOk(code) ==
    LET cum == Cum(code, 0)
        total == Total(code)
        msg == Ones((total + 7) \div 8 + 1)
    IN  \A i \in 1..Len(cum) :
            (cum[i][4] > 0 /\ cum[i][3] > 0) =>
                LET t == TakeAlg(msg, cum[i][2] \div 8, cum[i][2] % 8, cum[i][3], cum[i][4])
                IN  t.ok /\ ~t.fault /\ (cum[i][3] <= cum[i][4] => t.val = Pow2(cum[i][3]) - 1)

ASSUME Agrees(Code123, Itu123) /\ Covers(Code123, Itu123, {}) /\ Total(Code123) = 168 /\ TakesOk(Code123)
ASSUME Agrees(Code4, Itu4) /\ Covers(Code4, Itu4, {}) /\ Total(Code4) = 168
ASSUME Agrees(Code5, Itu5) /\ Covers(Code5, Itu5, {}) /\ Total(Code5) = 424 /\ TakesOk(Code5)
ASSUME Agrees(Code6, Itu6) /\ Covers(Code6, Itu6, {}) /\ Total(Code6) = 88 /\ TakesOk(Code6)
ASSUME Agrees(Code7, Itu7) /\ Total(Code7) = 40 /\ Total(Code7Entry) = 32 /\ TakesOk(Code7)
ASSUME Agrees(Code8, Itu8) /\ Covers(Code8, Itu8, {}) /\ Total(Code8) = 56 /\ TakesOk(Code8)
ASSUME Agrees(Code9, Itu9) /\ Covers(Code9, Itu9, {}) /\ Total(Code9) = 168 /\ TakesOk(Code9)
ASSUME Agrees(Code10, Itu10) /\ Covers(Code10, Itu10, {}) /\ Total(Code10) = 72 /\ TakesOk(Code10)
ASSUME Agrees(Code12, Itu12) /\ Covers(Code12, Itu12, {}) /\ Total(Code12) = 72 /\ TakesOk(Code12)
ASSUME Agrees(Code14, Itu14) /\ Covers(Code14, Itu14, {}) /\ Total(Code14) = 40 /\ TakesOk(Code14)
ASSUME Agrees(Code15, Itu15) /\ Covers(Code15, Itu15, {}) /\ Total(Code15) = 160 /\ TakesOk(Code15)
ASSUME Agrees(Code16, Itu16) /\ Covers(Code16, Itu16, {}) /\ Total(Code16) = 144 /\ TakesOk(Code16)
ASSUME Agrees(Code17, Itu17) /\ Covers(Code17, Itu17, {}) /\ Total(Code17) = 120 /\ TakesOk(Code17)
ASSUME Agrees(Code18, Itu18) /\ Covers(Code18, Itu18, {}) /\ Total(Code18) = 168 /\ TakesOk(Code18)
ASSUME Agrees(Code19, Itu19) /\ Covers(Code19, Itu19, {}) /\ Total(Code19) = 312 /\ TakesOk(Code19)
ASSUME Agrees(Code20, Itu20) /\ Total(Code20) = 40 /\ Total(Code20Entry) = 30 /\ TakesOk(Code20Entry)
ASSUME Agrees(Code21, Itu21) /\ Covers(Code21, Itu21, {}) /\ Total(Code21) = 272 /\ TakesOk(Code21)
ASSUME Agrees(Code24A, Itu24) /\ Total(Code24A) = 160
ASSUME Agrees(Code24B, Itu24) /\ Total(Code24B) = 168 /\ TakesOk(Code24B)
ASSUME Covers(Code24A \o Code24B, Itu24, {"model_serial"})
ASSUME Agrees(Code27, Itu27) /\ Covers(Code27, Itu27, {}) /\ Total(Code27) = 95 /\ TakesOk(Code27)

\* the 10-bit spare of types 4 / 11 is taken into a u8: fault-free only because of its offset (138 % 8 = 2)
ASSUME TakesOk(Code4)
\* ... and it would not be at offsets 6 or 7 (the check is not vacuous)
ASSUME TakeAlg(Ones(4), 0, 7, 10, 8).fault

\* AisDecode reads text fields and byte-aligned binary tails at literal offsets: they are the ITU ones
ASSUME Itu5.callsign = <<70, 42>> /\ Itu5.vessel_name = <<112, 120>> /\ Itu5.destination = <<302, 120>>
ASSUME Itu19.name = <<143, 120>> /\ Itu21.name = <<43, 120>> /\ Itu24.vessel_name = <<40, 120>>
ASSUME Itu24.vendor_id = <<48, 18>> /\ Itu24.model_serial = <<66, 24>> /\ Itu24.callsign = <<90, 42>>
ASSUME Itu12.text[1] = 72 /\ Itu14.text[1] = 40
ASSUME Itu6.data[1] = 8 * 11 /\ Itu8.data[1] = 8 * 7 /\ Itu17.p_data[1] = 8 * 15
ASSUME Itu7.acks = <<40, 32>> /\ Itu20.reservations = <<40, 30>>
\* type 24 part B: the 24-bit model/serial text overlays the 4-bit unit model code and the 20-bit serial number
ASSUME Itu24.model_serial[1] = Itu24.unit_model_code[1]
       /\ Itu24.unit_model_code[1] + Itu24.unit_model_code[2] = Itu24.serial_number[1]
       /\ Itu24.serial_number[1] + Itu24.serial_number[2] = Itu24.model_serial[1] + Itu24.model_serial[2]

\* C16: the state is the last 19 bits of the 168-bit message; the selector precedes it
ASSUME \A L \in {Itu123, Itu4, Itu9, Itu18} : L.radio_status = <<149, 19>> /\ 149 + 19 = 168
ASSUME Itu9.selector = <<148, 1>> /\ Itu18.selector = <<148, 1>>

\* C14: element counts.  Implementation-shaped: count elements while a whole one fits (many_m_n(1,4));
\* requirement-shaped: the ITU lengths carry 1, 2, 3, 4 elements.
RECURSIVE LoopCount(_, _, _)
LoopCount(remaining, size, sofar) ==
    IF sofar = 4 \/ remaining < size THEN sofar ELSE LoopCount(remaining - size, size, sofar + 1)
BytesOf(L) == {Ceil(L, 8), Ceil(6 * Ceil(L, 6), 8)}
ASSUME \A i \in 1..4 : \A nb \in BytesOf(40 + 32 * i) : LoopCount(8 * nb - 40, 32, 0) = i          \* types 7, 13
Len20 == <<72, 104, 136, 160>>
ASSUME \A i \in 1..4 : \A nb \in BytesOf(Len20[i]) : LoopCount(8 * nb - 40, 30, 0) = i              \* type 20
\* type 16: second station iff >= 52 bits remain after the first (144-bit form only)
ASSUME \A nb \in BytesOf(96) : 8 * nb - 92 < 52
ASSUME \A nb \in BytesOf(144) : 8 * nb - 92 >= 52
\* type 15: thresholds of the code (>= 12 for an offset, >= 8 for a second request, >= 30 for a second station)
\* against the ITU forms 88 / 110(112) / 160
\* (an 88-bit message armored into 15 characters unarmors to 96 bits: the padding then reads as an
\* all-zero second request, which the decoder drops - hence the 'may be reported or dropped' rule)
ASSUME \A nb \in BytesOf(88) : 8 * nb - 96 < 12
ASSUME \A nb \in BytesOf(110) \cup BytesOf(112) : 8 * nb - 88 >= 8 /\ 8 * nb - 96 >= 12 /\ 8 * nb - 108 < 30
ASSUME \A nb \in BytesOf(160) : 8 * nb - 108 >= 30 /\ 8 * nb - 146 >= 12 /\ 8 * nb - 158 < 8 + 12
\* mandatory parts fit into the shortest legal byte count of their type
ASSUME \A t \in Supported : \A nb \in LegalBytes(t) : 8 * nb >= Mandatory(t)
\* nothing is read beyond the ITU maximum length by the fixed layouts
ASSUME \A t \in {1, 2, 3, 4, 9, 11, 18} : ItuLengths[t] = {168}
=============================================================================
