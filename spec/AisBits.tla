------------------------------ MODULE AisBits ------------------------------
(***************************************************************************)
(* Bit-level access to a byte sequence, most significant bit first.        *)
(*                                                                         *)
(* Three formulations of the same thing:                                   *)
(*   BitsReq  - requirement-shaped: value = sum of bit(off+i) * 2^(w-1-i)  *)
(*   TakeAlg  - implementation-shaped: nom 7 bits::complete::take, its     *)
(*              byte loop, shifts and truncating arithmetic in the output  *)
(*              type's width (outBits), with a fault flag for every shift  *)
(*              that Rust would reject in an overflow-checked build        *)
(*   Bits     - the fast closed form used by the trace specifications      *)
(* MC_Pure checks that they agree on exhaustive small domains.             *)
(* Bytes are integers 0..255, a byte string is a sequence of bytes.        *)
(***************************************************************************)
EXTENDS Integers, Sequences

Pow2(n) == 2 ^ n

\* bit i (0-based, MSB first) of byte string b
BitAt(b, i) == (b[(i \div 8) + 1] \div Pow2(7 - (i % 8))) % 2

HasBits(b, off, w) == off + w <= 8 * Len(b)

RECURSIVE BitsReq(_, _, _)
BitsReq(b, off, w) ==
    IF w = 0 THEN 0 ELSE 2 * BitsReq(b, off, w - 1) + BitAt(b, off + w - 1)

\* fast form: whole bytes, first byte masked, last byte shifted
Bits(b, off, w) ==
    IF w = 0 THEN 0 ELSE
    LET first == off \div 8
        last  == (off + w - 1) \div 8
        lead  == off % 8
        trail == 7 - ((off + w - 1) % 8)
        F[i \in first..last] ==
            LET v    == IF i = first THEN b[i + 1] % Pow2(8 - lead) ELSE b[i + 1]
                prev == IF i = first THEN 0 ELSE F[i - 1]
            IN  IF i = last THEN prev * Pow2(8 - trail) + (v \div Pow2(trail))
                            ELSE prev * 256 + v
    IN  F[last]

\* two's complement reading of a w-bit value
Signed(v, w) == IF v >= Pow2(w - 1) THEN v - Pow2(w) ELSE v

(***************************************************************************)
(* nom 7.1.3  bits::complete::take(count)  on input (bytes from index      *)
(* `start` (0-based), bit offset bitOff < 8), producing a value of an      *)
(* unsigned type of outBits bits.  Result: [ok, val, next, nextOff, fault] *)
(* ok = FALSE is nom's Eof error.  fault = TRUE iff Rust's overflow checks *)
(* would fire: a shift amount >= outBits, or `acc += x` overflowing.       *)
(***************************************************************************)
\* TLC integers are 32-bit: for a 32-bit output type no truncation can occur for
\* the counts used here (<= 30), so widths >= 31 are treated as unbounded.
Trunc(v, outBits) == IF outBits >= 31 THEN v ELSE v % Pow2(outBits)
Ovf(v, outBits) == outBits < 31 /\ v >= Pow2(outBits)

TakeAlg(b, start, bitOff, count, outBits) ==
    IF count = 0 THEN [ok |-> TRUE, val |-> 0, next |-> start, nextOff |-> bitOff, fault |-> FALSE]
    ELSE
    LET cnt == (count + bitOff) \div 8
        avail == Len(b) - start
    IN  IF avail * 8 < count + bitOff
        THEN [ok |-> FALSE, val |-> 0, next |-> start, nextOff |-> bitOff, fault |-> FALSE]
        ELSE
        LET \* loop state: [acc, offset, remaining, endOff, fault, done]
            Step(s, byte) ==
                IF s.done \/ s.remaining = 0 THEN [s EXCEPT !.done = TRUE]
                ELSE
                LET val == IF s.offset = 0 THEN byte
                           ELSE ((byte * Pow2(s.offset)) % 256) \div Pow2(s.offset)
                IN  IF s.remaining < 8 - s.offset
                    THEN LET sh  == 8 - s.offset - s.remaining
                             add == val \div Pow2(sh)
                         IN  [acc |-> Trunc(s.acc + add, outBits), offset |-> s.offset,
                              remaining |-> s.remaining,
                              endOff |-> s.remaining + s.offset,
                              fault |-> s.fault \/ sh >= outBits \/ Ovf(s.acc + add, outBits),
                              done |-> TRUE]
                    ELSE LET sh  == s.remaining - (8 - s.offset)
                             add == Trunc(val * Pow2(sh), outBits)
                         IN  [acc |-> Trunc(s.acc + add, outBits), offset |-> 0,
                              remaining |-> s.remaining - (8 - s.offset),
                              endOff |-> s.endOff,
                              fault |-> s.fault \/ sh >= outBits \/ Ovf(s.acc + add, outBits),
                              done |-> FALSE]
            init == [acc |-> 0, offset |-> bitOff, remaining |-> count, endOff |-> 0,
                     fault |-> FALSE, done |-> FALSE]
            lastIdx == IF start + cnt + 1 <= Len(b) THEN start + cnt + 1 ELSE Len(b)
            R[i \in start..lastIdx] ==
                IF i = start THEN init ELSE Step(R[i - 1], b[i])
            fin == R[lastIdx]
        IN  [ok |-> TRUE, val |-> fin.acc, next |-> start + cnt, nextOff |-> fin.endOff,
             fault |-> fin.fault]

(***************************************************************************)
(* parsers.rs signed_i32(len): take len bits into an i32, then             *)
(*   mask = !0 << len ; if (num << (32-len)).leading_zeros() == 0          *)
(*   then num | mask else !mask & num                                      *)
(* modelled on the unsigned WB-bit pattern (WB = 32 in the code; TLC's     *)
(* integers are 32-bit, so the model checks the identical formula for      *)
(* word sizes WB <= 16 - the algorithm is generic in the word size).       *)
(***************************************************************************)
SignedAlg(num, len, WB) ==
    LET shifted == (num * Pow2(WB - len)) % Pow2(WB)
        topSet  == shifted >= Pow2(WB - 1)       \* leading_zeros() = 0
        pattern == IF topSet THEN (Pow2(WB) - Pow2(len)) + (num % Pow2(len))   \* num | mask
                             ELSE num % Pow2(len)                               \* !mask & num
    IN  IF pattern >= Pow2(WB - 1) THEN pattern - Pow2(WB) ELSE pattern

=============================================================================
