CONSTANTS
  Pids = {1, 2}
  Ids <- MCIds
  MaxN = 3
  MaxK = 4
  Lens = {1}
  Cap = 0
  Dev <- NoDev
  Export = FALSE
SPECIFICATION Spec
INVARIANTS TypeOK GuardsPartition NoFault GateInv ProvenanceInv ReassemblyInv NoTraceInv DecodeFlagInv
CHECK_DEADLOCK FALSE
