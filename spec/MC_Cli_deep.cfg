CONSTANTS
  Ids <- MCIds
  MaxN = 2
  MaxLines = 5
  CliDev <- NoDev
SPECIFICATION Spec
INVARIANT CliSafety
PROPERTY CliTerminates
CHECK_DEADLOCK FALSE
