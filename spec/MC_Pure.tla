------------------------------ MODULE MC_Pure ------------------------------
(***************************************************************************)
(* Exhaustive small-domain agreement of the requirement-shaped and the     *)
(* implementation-shaped definitions of the pure layers.  No behaviour:    *)
(* every check is an ASSUME evaluated once by TLC.                         *)
(***************************************************************************)
EXTENDS Integers, Sequences, FiniteSets, TLC, AisBits, AisArmor, AisText

\* ---- AisBits ------------------------------------------------------------
BytePatterns == {0, 255, 170, 85, 1, 128, 129, 126, 15, 240}
ThreeBytes == {<<a, b, c, 165>> : a \in BytePatterns, b \in BytePatterns, c \in {0, 255, 90}}

BitsAgree ==
    \A bs \in ThreeBytes : \A off \in 0..15 : \A w \in 0..16 :
        /\ Bits(bs, off, w) = BitsReq(bs, off, w)
        /\ LET t == TakeAlg(bs, off \div 8, off % 8, w, 32)
           IN  t.ok /\ ~t.fault /\ t.val = BitsReq(bs, off, w)
                    /\ 8 * t.next + t.nextOff = off + w

\* into a u16 / u8 output type: value agrees whenever it fits, and no shift faults
\* for the (offset, width, type) combinations the layouts use (checked in MC_Layouts)
NarrowAgree ==
    \A bs \in ThreeBytes : \A off \in 0..7 : \A w \in 1..8 :
        LET t == TakeAlg(bs, 0, off, w, 8) IN t.ok /\ ~t.fault /\ t.val = BitsReq(bs, off, w)

TakeEof ==
    \A bs \in {<<1, 2>>} : \A off \in 0..7 : \A w \in 1..24 :
        TakeAlg(bs, 0, off, w, 32).ok <=> (off + w <= 16)

SignedAgree ==
    \A len \in 1..15 : \A v \in 0..(Pow2(len) - 1) :
        SignedAlg(v, len, 16) = Signed(v, len)
SignedRange ==
    \A len \in 1..12 : {Signed(v, len) : v \in 0..(Pow2(len) - 1)} = (-Pow2(len-1))..(Pow2(len-1) - 1)

\* ---- AisArmor -----------------------------------------------------------
Sym6 == {48, 87, 96, 119, 85, 106}          \* '0' 'W' '`' 'w' 'U' 'j' : both ranges, edges, 0101.. / 1010..
Sym2 == {119, 85}
RECURSIVE SeqsOf(_, _)
SeqsOf(S, n) == IF n = 0 THEN {<< >>} ELSE {Append(s, x) : s \in SeqsOf(S, n - 1), x \in S}

ArmorCase(d, fill) ==
    LET r == UnarmorReq(d, fill) a == UnarmorAlg(d, fill) f == Unarmor(d, fill)
    IN  /\ r.ok /\ a.ok /\ f.ok /\ ~a.fault
        /\ r.out = a.out /\ r.out = f.out
        /\ Len(r.out) = CeilDiv(6 * Len(d), 8)
ArmorAgreeShort == \A n \in 0..5 : \A d \in SeqsOf(Sym6, n) : \A fill \in 0..5 : ArmorCase(d, fill)
ArmorAgreeLong  == \A n \in 6..12 : \A d \in SeqsOf(Sym2, n) : \A fill \in 0..5 : ArmorCase(d, fill)
ArmorAlphabet ==
    /\ \A c \in 0..255 : IsArmor(c) <=> (c \in 48..87 \/ c \in 96..119)
    /\ {SixBit(c) : c \in {x \in 0..255 : IsArmor(x)}} = 0..63
    /\ \A v \in 0..63 : SixBit(ArmorChar(v)) = v
    /\ Cardinality({x \in 0..255 : IsArmor(x)}) = 64
ArmorRejects ==
    \A c \in {0, 47, 88, 95, 120, 255, 44, 42} : \A pos \in 1..3 : \A fill \in 0..5 :
        LET d == [<<48, 87, 119>> EXCEPT ![pos] = c]
        IN  ~UnarmorReq(d, fill).ok /\ ~UnarmorAlg(d, fill).ok /\ ~Unarmor(d, fill).ok
            /\ ~UnarmorAlg(d, fill).fault
ArmorRoundTrip ==
    \A bs \in ThreeBytes : Unarmor(Armor(bs, 6), 4).out = bs \o <<0>>

\* ---- AisText ------------------------------------------------------------
TextTable == \A v \in 0..63 : SixToAscii(v) = SixToAsciiReq(v)
TextAscii == \A v \in 0..63 : SixToAscii(v) \in 32..95
TrimSyms == {64, 32, 65, 63}
TrimAgree ==
    \A n \in 0..5 : \A s \in SeqsOf(TrimSyms, n) :
        LET t == Trim(s)
        IN  /\ t = TrimReq(s)
            /\ Len(t) <= Len(s)
            /\ Trim(t) = t \/ (t # << >> /\ t[Len(t)] = 64)   \* idempotent unless '@' is exposed by the space trim
            /\ t # << >> => t[1] # 32 /\ t[Len(t)] # 32

ASSUME BitsAgree
ASSUME NarrowAgree
ASSUME TakeEof
ASSUME SignedAgree
ASSUME SignedRange
ASSUME ArmorAlphabet
ASSUME ArmorAgreeShort
ASSUME ArmorAgreeLong
ASSUME ArmorRejects
ASSUME ArmorRoundTrip
ASSUME TextTable
ASSUME TextAscii
ASSUME TrimAgree

VARIABLE x
Init == x = 0
Next == x' = x
=============================================================================
